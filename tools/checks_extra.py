"""Checks that are not plain progsim runs register a handler here: HANDLERS[prop](prop, tier, seed, core) -> merged dict"""
HANDLERS = {}
