"""Checks that are not plain progsim runs register a handler here:
HANDLERS[prop](prop, tier, seed, core) -> merged dict (see check: merge())"""
import os, shutil

HANDLERS = {}


def _work(core, prop):
    work = os.path.join(core.WORK, prop)
    shutil.rmtree(work, ignore_errors=True)
    os.makedirs(work, exist_ok=True)
    return work


def _seed(seed, n):
    return (seed * 1000003 + n * 7919) % (2 ** 31)


def c12(prop, tier, seed, core):
    work = _work(core, prop)
    shards, scale, secs = (4, 1, 20) if tier == "quick" else (16, 12, 150)
    jobs = []
    for n in range(shards):
        out = os.path.join(work, "shard-%02d.json" % n)
        jobs.append(("codec#%d" % n, [core.binpath("codec"), "--seed", str(_seed(seed, n)), "--scale", str(scale), "--time-limit", str(secs), "--out", out], out))
    res = core.run_shards(prop, jobs, secs * 3 + 60)
    classes = {}
    for _, _, doc, _ in res:
        if doc:
            core.add_counts(classes, doc.get("classes", {}))
    m = core.merge(prop, tier, seed, res, core.known_for(prop), engine="codec", extra_cov={"input_classes": classes})
    m["rule"] = ("contexts: all combinations of 12x12 boundary ids x both flags plus seeded random ids with random leading-zero runs; text: complete "
                 "product of 10 version shapes x 23 trace-field shapes x 23 span-field shapes x ~290 flag shapes (all 256 byte values), field counts "
                 "0-6, seeded 1-3 edit mutations of valid strings, random strings; every input is classified by an independent char-level reference "
                 "(must-be-None / well-formed with expected values / unspecified for a leading '+'). evaluations = codec calls checked; distinct "
                 "non-trivial = distinct inputs that are not plain canonical strings, plus distinct encodings.")
    return m


HANDLERS["C12"] = c12
