"""Checks that are not plain progsim runs register a handler here:
HANDLERS[prop](prop, tier, seed, core) -> merged dict (see check: merge())"""
import os, shutil

HANDLERS = {}


def _work(core, prop):
    work = os.path.join(core.WORK, prop)
    shutil.rmtree(work, ignore_errors=True)
    os.makedirs(work, exist_ok=True)
    return work


def _seed(seed, n):
    return (seed * 1000003 + n * 7919) % (2 ** 31)


def c12(prop, tier, seed, core):
    work = _work(core, prop)
    shards, scale, secs = (4, 1, 20) if tier == "quick" else (16, 12, 150)
    jobs = []
    for n in range(shards):
        out = os.path.join(work, "shard-%02d.json" % n)
        jobs.append(("codec#%d" % n, [core.binpath("codec"), "--seed", str(_seed(seed, n)), "--scale", str(scale), "--time-limit", str(secs), "--out", out], out))
    res = core.run_shards(prop, jobs, secs * 3 + 60)
    classes = {}
    for _, _, doc, _ in res:
        if doc:
            core.add_counts(classes, doc.get("classes", {}))
    m = core.merge(prop, tier, seed, res, core.known_for(prop), engine="codec", extra_cov={"input_classes": classes})
    # the same codecs in a build without the `enable` feature (they are plain functions of text)
    import json as _json
    inert_dir = os.path.join(core.VERIF, "harness-inert")
    r = core.sh(["cargo", "build", "-q"], cwd=inert_dir, timeout=1500)
    if r.returncode != 0:
        m["inconclusive"].append("disabled build failed: " + r.stdout[-300:].replace("\n", " | "))
    else:
        o = os.path.join(work, "inert-codec.json")
        core.sh([os.path.join(inert_dir, "target", "debug", "inert"), "--seed", str(_seed(seed, 77)), "--steps", str(60000 if tier == "quick" else 600000), "--out", o], timeout=600)
        try:
            d = _json.load(open(o))
            n_codec = d.get("ops_by_kind", {}).get("codec", 0)
            m["cov"]["codec_round_trips_in_a_build_without_enable"] = n_codec
            m["evaluations"] += n_codec
            for v in d.get("violations", []):
                if v.get("signature") == "codec":
                    m["violations"].append({"category": "Codec", "signature": "codec-in-disabled-build", "detail": v.get("detail")})
        except Exception as e:
            m["inconclusive"].append("disabled-build codec run gave no result: %s" % e)
    m["rule"] = ("contexts: all combinations of 12x12 boundary ids x both flags plus seeded random ids with random leading-zero runs; text: complete "
                 "product of 10 version shapes x 23 trace-field shapes x 23 span-field shapes x ~290 flag shapes (all 256 byte values), field counts "
                 "0-6, seeded 1-3 edit mutations of valid strings, random strings; every input is classified by an independent char-level reference "
                 "(must-be-None / well-formed with expected values / unspecified for a leading '+'). evaluations = codec calls checked; distinct "
                 "non-trivial = distinct inputs that are not plain canonical strings, plus distinct encodings. Ids also go through non-borrowing serde deserializers; "
                 "a second binary built without the `enable` feature repeats the traceparent / Display / FromStr round trips.")
    return m


HANDLERS["C12"] = c12


HOSTILE = ["slow-reporter-first-send", "reporter-traces", "pre-reporter", "deep-scopes", "deep-scopes-cancelable", "wide-scope", "full-ring", "full-ring-cancelable",
           "tls-A-0", "tls-B-0", "tls-C-0", "tls-R-0", "tls-A-1", "tls-B-1", "tls-C-1", "tls-R-1", "tls-A-2", "tls-B-2", "tls-C-2",
           "tls-A-3", "tls-B-3", "tls-C-3", "tls-R-3", "tls-A-0-noreporter", "tls-C-0-noreporter", "tls-R-0-noreporter",
           "tls-A-0-cancelable", "tls-C-0-cancelable", "tls-R-0-cancelable"]


def _hostile_sig(name):
    """signature of an abort in a hostile scenario"""
    parts = name.split("-")
    if parts[0] == "tls" and parts[1] in ("C", "R") and parts[2] in ("1", "2"):
        # a *::random() constructor inside a TLS destructor that runs after rand's generator is gone
        return "random-ctor-in-tls-dtor"
    return "abort-in-" + name


# scenarios that are slow by nature (wall-clock budget in seconds)
LONG_SCENARIOS = {"id-counter-wrap": 600, "many-threads-span-ids": 240}


PLAIN_DIR = "/verif/harness-plain"
_plain_built = {}


def build_plain(core):
    """the public-API-only scenarios run against fastrace built with `enable` alone (no `verif`):
    an own workspace, so that feature unification cannot switch the instrumentation on"""
    if "ok" not in _plain_built:
        r = core.sh(["cargo", "build", "-q"], cwd=PLAIN_DIR, timeout=1500)
        _plain_built["ok"] = r.returncode == 0
        _plain_built["err"] = r.stdout[-300:]
    return _plain_built["ok"], _plain_built["err"]


def run_hostile(core, prop, work, names, release=False):
    import json, subprocess, time
    out = []
    procs = []
    if any(n.startswith("plain:") for n in names):
        ok, err = build_plain(core)
        if not ok:
            out.append(("plain-build", "build failed", None, "/dev/null"))
            names = [n for n in names if not n.startswith("plain:")]
    if release:
        names = [n for n in names if not n.startswith("plain:")]
    for nme in names:
        if nme.startswith("plain:"):
            o = os.path.join(work, "plain-%s.json" % nme[6:])
            if os.path.exists(o):
                os.unlink(o)
            log = open(o + ".log", "w")
            p = subprocess.Popen([os.path.join(PLAIN_DIR, "target", "debug", "plain"), "--scenario", nme[6:], "--out", o], stdout=log, stderr=subprocess.STDOUT, env=core.ENV)
            procs.append((nme, p, o, time.time(), log))
            continue
        o = os.path.join(work, "hostile-%s%s.json" % (nme, "-rel" if release else ""))
        if os.path.exists(o):
            os.unlink(o)
        log = open(o + ".log", "w")
        p = subprocess.Popen([core.binpath("hostile", release), "--scenario", nme, "--out", o], stdout=log, stderr=subprocess.STDOUT, env=core.ENV)
        procs.append((nme, p, o, time.time(), log))
    for nme, p, o, t0, log in procs:
        try:
            rc = p.wait(timeout=max(1, LONG_SCENARIOS.get(nme, 90) - (time.time() - t0)))
        except subprocess.TimeoutExpired:
            p.kill()
            p.wait()
            rc = "hang"
        log.close()
        doc = None
        if os.path.exists(o):
            try:
                doc = json.load(open(o))
            except Exception:
                doc = None
        out.append((nme + ("/release" if release else ""), rc, doc, o + ".log"))
    return out


def c07(prop, tier, seed, core):
    import json
    work = _work(core, prop)
    known = core.known_for(prop)
    known_sigs = [e["signature"] for e in known]
    mult_p, mult_t = (1, 1) if tier == "quick" else (10, 8)
    plan = [("placed", "default", 3), ("placed", "cancelable", 2), ("stepped", "default", 3), ("stepped", "cancelable", 2)]
    jobs = []
    n = 0
    for mode, config, shards in plan:
        for s in range(shards):
            n += 1
            out = os.path.join(work, "shard-%02d.json" % n)
            jobs.append(("%s/%s#%d" % (mode, config, s), [core.binpath("progsim"), "--prop", prop, "--mode", mode, "--config", config,
                         "--seed", str(_seed(seed, n)), "--programs", str(1200 * mult_p), "--time-limit", str(14 * mult_t * (4 if tier == "quick" else 1)), "--out", out,
                         "--replay-dir", core.REPLAYS, "--known", ",".join(known_sigs)], out))
    res = core.run_shards(prop, jobs, 14 * mult_t * (4 if tier == "quick" else 1) * 3 + 120)
    # a shard that died (abort, signal) is a violation of C07 itself, not an inconclusive run
    fixed = []
    extra_viol = []
    for label, rc, doc, tail in res:
        if doc is None and isinstance(rc, int) and rc != 0:
            os.makedirs(core.REPLAYS, exist_ok=True)
            rp = os.path.join(core.REPLAYS, "C07-shard-died-%s.log" % label.replace("/", "_").replace("#", "_"))
            open(rp, "w").write(tail)
            extra_viol.append({"category": "Abort", "signature": "process-died", "detail": "progsim shard %s died with status %s: %s" % (label, rc, tail[-300:].replace("\n", " | ")), "replay": rp})
            fixed.append((label, rc, {"executions": 0, "programs": 0}, tail))
        else:
            fixed.append((label, rc, doc, tail))
    m = core.merge(prop, tier, seed, fixed, known, engine="progsim")
    m["violations"].extend(extra_viol)
    # hostile scenarios, one process each
    # also 2^32 span ids on one thread (the per-thread counter wraps; about ten seconds)
    add_hostile(m, core, prop, work, tier, HOSTILE + ["id-counter-wrap", "deep-backlog", "deep-backlog-cancel", "set-reporter-vs-cycles", "plain:reporter-panicked-earlier", "plain:reporter-needs-stack", "plain:flush-inside-scope-with-tracing-reporter", "plain:exit-with-full-queue-while-reporter-busy"], known_sigs)
    if tier == "thorough":
        add_sanitizers(m, core, prop, work, seed)
    m["rule"] = (core.RULES["progsim"] + " C07 adds: programs from a hostile profile (40% no-op parents, empty parent sets, 25% unsampled roots, property "
                 "closures that themselves run API operations, all adapter kinds, thread exits) where any panic or a logical thread that does not "
                 "come back is the violation; plus one-process-per-scenario runs: every public call before set_reporter, 4200 nested scopes, 10400 "
                 "local spans in one scope, 25000 commands into a ring nobody drains (per-call latency recorded), and the full call list issued "
                 "from thread-local destructors in every registration order of the user's, fastrace's and rand's thread-locals.")
    return m


def add_sanitizers(m, core, prop, work, seed):
    """ASan builds of stress / progsim / hostile and Miri runs of the tiny program (thorough tier)"""
    import sanitizers
    jobs = [("stress-default", "stress", ["--config", "default", "--seed", str(seed), "--jobs", "4000", "--interval-us", "0", "--fillers", "2", "--time-limit", "60"], True),
            ("stress-cancelable", "stress", ["--config", "cancelable", "--seed", str(seed + 1), "--jobs", "3000", "--interval-us", "0", "--fillers", "1", "--time-limit", "60"], True),
            ("progsim-%s-stepped" % prop, "progsim", ["--prop", prop, "--mode", "stepped", "--config", "default", "--seed", str(seed + 2), "--programs", "1500", "--time-limit", "90", "--replay-dir", core.REPLAYS], True),
            ("progsim-%s-placed-cancelable" % prop, "progsim", ["--prop", prop, "--mode", "placed", "--config", "cancelable", "--seed", str(seed + 3), "--programs", "1500", "--time-limit", "90", "--replay-dir", core.REPLAYS], True)]
    for sc in ("tls-A-0", "tls-B-0", "tls-C-0", "tls-R-0", "tls-A-3", "deep-scopes", "wide-scope", "full-ring", "pre-reporter"):
        jobs.append(("hostile-" + sc, "hostile", ["--scenario", sc], True))
    a, av, ai = sanitizers.asan(core, work, seed, jobs)
    mi, mv, mii = sanitizers.miri(core, work)
    tjobs = [j for j in jobs if not j[0].startswith("hostile-tls")]
    tjobs += [("stress-default-500us", "stress", ["--config", "default", "--seed", str(seed + 7), "--jobs", "6000", "--interval-us", "500", "--fillers", "3", "--time-limit", "90"], True),
              ("stress-cancelable-500us", "stress", ["--config", "cancelable", "--seed", str(seed + 8), "--jobs", "4000", "--interval-us", "500", "--fillers", "2", "--time-limit", "90"], True),
              ("hostile-slow-reporter-first-send", "hostile", ["--scenario", "slow-reporter-first-send"], True),
              ("hostile-reporter-traces", "hostile", ["--scenario", "reporter-traces"], True)]
    t, tv, ti = sanitizers.tsan(core, work, seed, tjobs)
    m["cov"]["asan"] = a
    m["cov"]["miri"] = mi
    m["cov"]["tsan"] = t
    m["violations"].extend(av + mv + tv)
    m["inconclusive"].extend(ai + mii + ti)
    m["evaluations"] += len(a["runs"]) + len(t["runs"]) + sum(r.get("completed_schedules", 0) for r in mi["runs"])


def add_tsan_quick(m, core, prop, work, seed):
    """quick tier: the free-running stress engine under ThreadSanitizer (instrumented std), two
    configurations; the build is made by setup.sh and is incremental here"""
    import sanitizers
    jobs = [("stress-default", "stress", ["--config", "default", "--seed", str(seed + 11), "--jobs", "2500", "--interval-us", "300", "--fillers", "2", "--time-limit", "40"], True),
            ("stress-cancelable", "stress", ["--config", "cancelable", "--seed", str(seed + 12), "--jobs", "2000", "--interval-us", "0", "--fillers", "1", "--time-limit", "40"], True)]
    t, tv, ti = sanitizers.tsan(core, work, seed, jobs)
    m["cov"]["tsan"] = t
    m["violations"].extend(tv)
    m["inconclusive"].extend(ti)
    m["evaluations"] += sum(r.get("executions") or 0 for r in t["runs"])


def add_hostile(m, core, prop, work, tier, names, known_sigs):
    hres = run_hostile(core, prop, work, names, release=False)
    if tier == "thorough":
        ok, err = core.build(release=True)
        if ok:
            hres += run_hostile(core, prop, work, names, release=True)
        else:
            m["inconclusive"].append("release build failed: " + err[-200:])
    scen = []
    calls = 0
    for nme, rc, doc, logp in hres:
        if nme == "plain-build":
            m["inconclusive"].append("the harness for the build without `verif` failed to build: " + _plain_built.get("err", ""))
            continue
        entry = {"scenario": nme, "status": rc if not isinstance(rc, int) or rc != 0 else "ok"}
        if doc and doc.get("ok"):
            calls += doc.get("calls", 0)
            entry["calls"] = doc.get("calls")
            entry.update(doc.get("extra") or {})
            m["evaluations"] += 1
            m["distinct"] += 1
        else:
            sig = _hostile_sig(nme.split("/")[0])
            if doc and doc.get("ok") is False:
                sig = "panic-in-" + nme.split("/")[0]
                detail = "scenario %s: a tracing call panicked: %s" % (nme, doc.get("panic"))
            elif rc == "hang":
                sig = "hang-in-" + nme.split("/")[0]
                detail = "scenario %s did not finish within the watchdog (a call did not return)" % nme
            else:
                tail = open(logp).read()[-400:].replace("\n", " | ")
                detail = "scenario %s: process died with status %s: %s" % (nme, rc, tail)
            entry["signature"] = sig
            m["evaluations"] += 1
            if sig in known_sigs:
                m["known_hits"][sig] = m["known_hits"].get(sig, 0) + 1
            else:
                m["violations"].append({"category": "Hostile", "signature": sig, "detail": detail, "replay": logp})
        scen.append(entry)
    m["cov"]["hostile_scenarios"] = scen
    m["cov"]["hostile_api_calls_returned"] = calls
    m["cov"]["known_findings_witnessed"] = m["known_hits"]


HANDLERS["C07"] = c07


def c01(prop, tier, seed, core):
    m = core.check_progsim_family(prop, tier, seed)
    if tier == "thorough":
        add_sanitizers(m, core, prop, os.path.join(core.WORK, prop), seed)
        m["rule"] = core.RULES["progsim"] + " Thorough adds AddressSanitizer and ThreadSanitizer (instrumented std) builds of stress / progsim / hostile and Miri runs (16 schedules x 4 programs) of a tiny multi-threaded span program."
    else:
        add_tsan_quick(m, core, prop, os.path.join(core.WORK, prop), seed)
        m["rule"] = core.RULES["progsim"] + " The quick tier also runs the stress engine (4500 jobs, two configurations) in a ThreadSanitizer build with an instrumented standard library; a report is a violation."
    # the background collector on its own: a delayed last command followed by silence
    add_hostile(m, core, prop, os.path.join(core.WORK, prop), tier, ["lone-late-send", "reconfigure-interval", "flush-delivers-what-finished-before-it", "plain:slow-report-overruns-interval", "plain:threads-exactly-once", "plain:set-reporter-while-reporting", "big-cycle-late-signal", "reporter-traces", "many-busy-queues-flush", "nested-scope-capacity"], [e["signature"] for e in core.known_for(prop)])
    m["rule"] += (" One separate process: 36 rounds in which a thread's last command is held up for 0.5-9.5 ms right before it enters the queue, the thread exits, "
                  "and nothing calls into the library afterwards; the background collector (2 ms interval) must report the span. Another process configures a 1 h report interval, then re-configures 5 ms and waits for "
                  "background delivery.")
    return m


HANDLERS["C01"] = c01


def c09(prop, tier, seed, core):
    m = core.check_progsim_family(prop, tier, seed)
    work = os.path.join(core.WORK, prop)
    known_sigs = [e["signature"] for e in core.known_for(prop)]
    add_hostile(m, core, prop, work, tier, ["full-ring", "full-ring-cancelable", "deep-scopes", "deep-scopes-cancelable", "wide-scope", "deep-backlog", "deep-backlog-cancel", "big-cycle-late-signal", "big-cycle-late-signal-cancelable", "nested-scope-capacity"], known_sigs)
    m["rule"] = (core.RULES["progsim"] + " C09 programs: ordinary operations, then one thread floods its 10240-slot command ring (10300+ cheap commands) while "
                 "the collector is held back, issues operations of every kind during the episode, the collector drains, the thread sends again and "
                 "runs a complete fresh trace. The Push hook reads `full` before every push, which gives the exact set of possibly dropped commands; "
                 "only those may be missing, everything delivered is checked by all record oracles, cancelled traces must stay away, entries of "
                 "finished traces must be gone. Templates: cancel+finish parked with a full ring and replayed (collector stepped between the replayed "
                 "pushes), 10300 local spans in one scope, 4100 nested scopes; hostile processes measure per-call latency with an undrained ring.")
    return m


HANDLERS["C09"] = c09


def c04(prop, tier, seed, core):
    m = core.check_progsim_family(prop, tier, seed)
    work = os.path.join(core.WORK, prop)
    known_sigs = [e["signature"] for e in core.known_for(prop)]
    # a cancel parked behind more forced commands than the ring has slots (one process)
    add_hostile(m, core, prop, work, tier, ["deep-backlog-cancel", "overlapping-flushes-cancelable", "tls-cancel-in-destructor-cancelable", "plain:cancel-config-matrix", "many-busy-queues-cancel-cancelable", "plain:many-traces-per-thread-cancelable"], known_sigs)
    m["rule"] = core.RULES["progsim"] + (" One separate process parks 10300 cancels of a bystander trace and then the cancel of a victim trace behind a full ring "
                                          "(more forced commands than the ring has slots), lets the collector catch up and finishes the roots: nothing of either trace may be delivered, a later trace must be complete. Another process keeps a flush() inside a slow report() while a root is cancelled, a second "
                                          "flush() starts on another thread and late children finish: nothing of the cancelled trace may come out, a bystander trace must come out whole, once. A third one cancels and drops roots inside user thread-local destructors (every initialisation order).")
    return m


HANDLERS["C04"] = c04


def c06(prop, tier, seed, core):
    m = core.check_progsim_family(prop, tier, seed)
    work = os.path.join(core.WORK, prop)
    known_sigs = [e["signature"] for e in core.known_for(prop)]
    # several roots that continue one and the same trace id, a span over all of them
    add_hostile(m, core, prop, work, tier, ["shared-trace-id", "shared-trace-id-cancelable", "many-cycles-before-finish", "many-cycles-before-finish-cancelable", "plain:early-local-collector"], known_sigs)
    m["rule"] = core.RULES["progsim"] + (" Two separate processes run 150 seeded rounds each in which 2-4 roots continue the SAME trace id, a span is created over all of "
                                          "them, events and properties are attached by every route with collector cycles in between, and every copy of the span (told "
                                          "apart by its parent id) must carry each attachment exactly once.")
    return m


HANDLERS["C06"] = c06


def c03(prop, tier, seed, core):
    m = core.check_progsim_family(prop, tier, seed)
    work = os.path.join(core.WORK, prop)
    known_sigs = [e["signature"] for e in core.known_for(prop)]
    add_hostile(m, core, prop, work, tier, ["many-busy-queues-cancelable", "big-cycle-late-signal-cancelable", "plain:many-traces-per-thread-cancelable"], known_sigs)
    m["rule"] = core.RULES["progsim"] + (" One separate process (cancelable): three rounds in which ten threads queue 10000 commands each between two collector cycles, then a "
                                          "child of a watched trace finishes on a later-registered thread and its root finishes; the watched trace must be delivered whole.")
    return m


HANDLERS["C03"] = c03


def c10(prop, tier, seed, core):
    import subprocess, json, time
    # a thread that has opened 2^32 local scopes (about a minute and a half in a release build):
    # started first, on a core of its own, while the other shards run
    work = os.path.join(core.WORK, prop)
    os.makedirs(work, exist_ok=True)
    long_proc = None
    ok1, _ = core.build()
    ok2, _ = core.build_hx_release()
    o = os.path.join(work, "hostile-scope-counter-wrap-rel.json")
    if ok1 and ok2:
        if os.path.exists(o):
            os.unlink(o)
        long_log = open(o + ".log", "w")
        long_proc = subprocess.Popen([core.binpath("hostile", True), "--scenario", "scope-counter-wrap", "--out", o], stdout=long_log, stderr=subprocess.STDOUT, env=core.ENV)
        t_long = time.time()
    m = core.check_progsim_family(prop, tier, seed)
    known_sigs = [e["signature"] for e in core.known_for(prop)]
    add_hostile(m, core, prop, work, tier, ["panicking-closures-in-scope"], known_sigs)
    if long_proc is not None:
        try:
            rc = long_proc.wait(timeout=max(1, 900 - (time.time() - t_long)))
        except subprocess.TimeoutExpired:
            long_proc.kill()
            long_proc.wait()
            rc = "watchdog"
        long_log.close()
        doc = None
        try:
            doc = json.load(open(o))
        except Exception:
            pass
        entry = {"scenario": "scope-counter-wrap/release", "status": "ok" if doc and doc.get("ok") else rc}
        if doc and doc.get("ok"):
            entry.update(doc.get("extra") or {})
            m["evaluations"] += 1
            m["distinct"] += 1
        elif doc and doc.get("ok") is False:
            m["violations"].append({"category": "Hostile", "signature": "panic-in-scope-counter-wrap", "detail": "scenario scope-counter-wrap: " + str(doc.get("panic")), "replay": o})
        elif rc == "watchdog":
            m["inconclusive"].append("scope-counter-wrap did not finish within 900 s (2^32 scope registrations on one core)")
        else:
            m["violations"].append({"category": "Hostile", "signature": "abort-in-scope-counter-wrap", "detail": "scenario scope-counter-wrap: process died with status %s: %s" % (rc, open(o + ".log").read()[-300:].replace("\n", " | ")), "replay": o + ".log"})
        m["cov"].setdefault("hostile_scenarios", []).append(entry)
    m["rule"] = core.RULES["progsim"] + (" One separate process: inside an open scope, property closures given to every closure-taking entry point panic (contained by the caller); "
                                          "after each the thread's local context must be the scope's span again, and spans recorded afterwards must hang where they belong. "
                                          "One more process (release build, started first): a thread opens and closes 2^32 local scopes, then local spans must nest, close and carry "
                                          "attachments exactly as on a young thread.")
    return m


HANDLERS["C10"] = c10
HANDLERS["C11"] = c10


def c08(prop, tier, seed, core):
    m = core.check_progsim_family(prop, tier, seed)
    work = os.path.join(core.WORK, prop)
    known_sigs = [e["signature"] for e in core.known_for(prop)]
    # retained state measured from outside: live heap bytes of the process over identical rounds
    add_hostile(m, core, prop, work, tier, ["steady-state-heap", "steady-state-heap-cancelable", "deep-backlog", "plain:thread-churn-heap"], known_sigs)
    m["rule"] = core.RULES["progsim"] + (" Every twelfth program contains a queue-full episode. Two separate processes (one per configuration) run 45 identical rounds of 20 finished "
                                          "traces each (late children and late attachments after the root, cancels, children on other threads, unsampled traces) under a counting "
                                          "allocator: the live heap of the process must not keep growing from round to round (whatever container would hold the state).")
    return m


HANDLERS["C08"] = c08


def c02(prop, tier, seed, core):
    m = core.check_progsim_family(prop, tier, seed)
    work = os.path.join(core.WORK, prop)
    known_sigs = [e["signature"] for e in core.known_for(prop)]
    add_hostile(m, core, prop, work, tier, ["many-threads-span-ids"], known_sigs)
    m["rule"] = core.RULES["progsim"] + (" One separate process creates one span on each of 66000 short-lived threads and counts span ids handed out twice: ids are a random "
                                          "32-bit per-thread prefix plus a counter, so about 0.5 chance collisions are expected at that scale; more than 25 is a violation "
                                          "(a statistical threshold, the only one in this framework), an id of 0 always is.")
    return m


HANDLERS["C02"] = c02


def c16(prop, tier, seed, core):
    import subprocess
    # the disabled build lives in its own workspace so that feature unification cannot enable tracing
    inert_dir = os.path.join(core.VERIF, "harness-inert")
    r = core.sh(["cargo", "build", "-q"], cwd=inert_dir, timeout=1500)
    m = core.check_progsim_family(prop, tier, seed)
    work = os.path.join(core.WORK, prop)
    if r.returncode != 0:
        m["inconclusive"].append("disabled-build harness failed to build: " + r.stdout[-300:])
        return m
    shards, steps = (4, 200000) if tier == "quick" else (16, 3000000)
    jobs = []
    for n in range(shards):
        out = os.path.join(work, "inert-%02d.json" % n)
        jobs.append(("inert#%d" % n, [os.path.join(inert_dir, "target", "debug", "inert"), "--seed", str(_seed(seed, 100 + n)), "--steps", str(steps), "--out", out], out))
    res = core.run_shards(prop, jobs, 600)
    mi = core.merge(prop, tier, seed, res, core.known_for(prop), engine="inert")
    m["evaluations"] += mi["evaluations"]
    m["distinct"] += mi["distinct"]
    m["violations"].extend(mi["violations"])
    m["inconclusive"].extend(mi["inconclusive"])
    m["cov"]["disabled_build"] = {k: mi["cov"].get(k) for k in ("ops_by_kind", "shards")}
    m["cov"]["disabled_build"]["api_calls"] = mi["evaluations"]
    known_sigs = [e["signature"] for e in core.known_for(prop)]
    add_hostile(m, core, prop, work, tier, ["lazy-pre-reporter", "pre-reporter"], known_sigs)
    m["rule"] = (core.RULES["progsim"] + " C16 adds: (a) a separate binary linked against fastrace WITHOUT `enable` runs seeded random sequences over the whole "
                 "public API (spans, scopes, local collectors, adapters, #[trace] functions, flush, other threads) with counting closures, a counting "
                 "reporter and /proc/self/task thread counts: all three counts must stay zero / unchanged and every context accessor must return "
                 "None; (b) enabled build: the model knows for every closure-taking call whether the target is recording; the number of closure "
                 "invocations per operation must equal the model's (no-op spans, no local parent, unsampled lines => 0); (c) before set_reporter.")
    return m


HANDLERS["C16"] = c16


WIRE_ENV = [
    {"OTEL_SDK_DISABLED": "", "DD_TRACE_ENABLED": "true", "JAEGER_DISABLED": "false"},
    {"OTEL_SDK_DISABLED": "0", "DD_TRACE_ENABLED": "1", "JAEGER_DISABLED": "0", "OTEL_TRACES_SAMPLER": "always_on"},
    {"OTEL_SDK_DISABLED": "no", "OTEL_SERVICE_NAME": "from-env", "DD_SERVICE": "from-env", "JAEGER_SERVICE_NAME": "from-env"},
    {"OTEL_SDK_DISABLED": "off", "OTEL_TRACES_EXPORTER": "", "DD_ENV": "", "JAEGER_TAGS": ""},
    {"OTEL_SDK_DISABLED": "false", "DD_TRACE_ENABLED": "", "RUST_LOG": "trace"},
]


def _wire(prop, tier, seed, core, targets, rule):
    work = _work(core, prop)
    envs = []
    mult = 1 if tier == "quick" else 10
    jobs = []
    n = 0
    for target, shards, batches, secs in targets:
        for k in range(shards if tier == "quick" else max(shards, 4)):
            n += 1
            out = os.path.join(work, "shard-%02d.json" % n)
            argv = [core.binpath("wire"), "--target", target, "--seed", str(_seed(seed, n)), "--batches", str(batches * mult),
                    "--time-limit", str(secs * (1 if tier == "quick" else 8)), "--huge", "1" if k == 0 else "0", "--out", out]
            label = "%s#%d" % (target, k)
            if k % 2 == 1:
                # every other shard runs in a process environment that carries the usual tracing
                # switches with values that mean "not disabled" (or nothing at all): what a reporter
                # transmits must not depend on them
                v = WIRE_ENV[(k // 2 + seed) % len(WIRE_ENV)]
                argv = ["env"] + ["%s=%s" % kv for kv in v.items()] + argv
                label += "/env:" + ",".join("%s=%r" % kv for kv in v.items())
                envs.append(label)
            jobs.append((label, argv, out))
    res = core.run_shards(prop, jobs, max(t[3] for t in targets) * (1 if tier == "quick" else 8) * 3 + 90)
    m = core.merge(prop, tier, seed, res, core.known_for(prop), engine="wire")
    m["cov"]["shards_with_tracing_switches_in_the_environment"] = envs
    m["rule"] = rule
    return m


def c19(prop, tier, seed, core):
    return _wire(prop, tier, seed, core, [("jaeger", 3, 80, 16), ("datadog", 3, 60, 16), ("otel", 2, 150, 10)],
                 "seeded random SpanRecord batches (0-2000 records; ids 0 / 1 / MAX / top bit / random; empty, long, multi-byte, NUL strings; duplicate "
                 "keys; 0-20 events; batch sizes 14..17, 31..33, 127..129, 255..257 and, in one shard per target, 65535..65537 first; now and then one record with 129-1500 events and/or 129-600 properties, beyond the default span limits of the OpenTelemetry SDK) are given to the real reporters. Jaeger: datagrams received on a loopback UDP socket are decoded by an independent "
                 "Thrift compact decoder (message header, Batch, Process, Span, Tag, Log) and compared field by field, no trailing bytes; an "
                 "independent encoder is cross-checked against the real bytes. Datadog: a loopback HTTP/1.1 listener captures request line, headers "
                 "and body, an independent msgpack decoder checks the [[span..]] shape and every field (meta as a map, last duplicate wins). "
                 "OpenTelemetry: a capturing SpanExporter receives SpanData, every field is compared. evaluations = report() calls; each batch is a "
                 "distinct seeded input.")


def c20(prop, tier, seed, core):
    return _wire(prop, tier, seed, core, [("split", 6, 70, 16)],
                 "Jaeger reporter, loopback UDP: single spans whose datagram would be 7990..8002 / 8100 / 20000 / 70000 bytes (sizes computed by the "
                 "harness's own Thrift encoder, which is cross-checked against the real bytes), batches tuned so that k spans encode to 7996..8003 "
                 "bytes, oversize spans at first / last / adjacent / all / random positions, hundreds of 1-4.5 kB spans (repeated halving), batches "
                 "of up to 3000 records. Every datagram must be < 8000 bytes and well formed, the decoded spans concatenated in arrival order must "
                 "equal the batch minus exactly the spans whose own encoding does not fit; an in-order subsequence is re-sent to tell loopback loss "
                 "from a reporter that skips spans (4 attempts).")


HANDLERS["C19"] = c19
HANDLERS["C20"] = c20


def c15(prop, tier, seed, core):
    import subprocess, sys, json
    work = _work(core, prop)
    runs = [(seed, 60)] if tier == "quick" else [(seed * 100 + k, 160) for k in range(6)]
    res = []
    for (sd, n) in runs:
        g = core.sh([sys.executable, os.path.join(core.VERIF, "tools", "gen_twins.py"), "--seed", str(sd), "--n", str(n)], cwd=core.VERIF, timeout=120)
        b = core.sh(["cargo", "build", "-q", "-p", "twins"], cwd=core.HARNESS, timeout=1500)
        if b.returncode != 0:
            # the generated crate is ordinary Rust that compiles on the unchanged tree; if the twins no longer
            # compile, the macro rejected or mangled a function it accepted before
            rp = os.path.join(core.REPLAYS, "C15-build-%d.log" % sd)
            os.makedirs(core.REPLAYS, exist_ok=True)
            open(rp, "w").write(b.stdout[-6000:])
            res.append(("twins#%d" % sd, 0, {"executions": 1, "distinct_executions": 0, "programs": 0, "violations": [
                {"category": "Twins", "signature": "expansion-does-not-compile", "detail": "the crate with the annotated twins no longer compiles: " + b.stdout[-400:].replace("\n", " | "), "replay": rp}]}, ""))
            continue
        out = os.path.join(work, "twins-%d.json" % sd)
        res += core.run_shards(prop, [("twins#%d" % sd, [core.binpath("twins"), "--out", out], out)], 300)
    m = core.merge(prop, tier, seed, res, core.known_for(prop), engine="twins")
    m["cov"]["functions"] = sum((d or {}).get("functions", 0) for _, _, d, _ in res)
    m["rule"] = ("tools/gen_twins.py writes every function twice, in `mod plain` as written and in `mod traced` with #[fastrace::trace(..)]: a hand-written "
                 "corpus (sync/async, generics, lifetimes, patterns and `mut` parameters, impl Trait in both positions, &self/&mut self/self methods, "
                 "associated functions, unsafe fn, async-trait impls, async fn in traits, early return, `?`, loops with break values, panics, "
                 "recursion, nested traced calls, closures capturing arguments, Drop-logging by-value arguments, name / short_name / enter_on_poll / "
                 "properties with format strings and {{ }} escapes) plus seeded grammar-generated functions. Each case runs both twins on the same "
                 "input (without a local parent and under one) and compares return value, ordered side-effect log, panic payload, multiset of "
                 "dropped arguments; the delivered records must be exactly one per entered traced function (one per poll with enter_on_poll) with "
                 "the expected name, the configured properties, and the (span, parent) pairs must equal the runtime call tree. evaluations = "
                 "(function, input) pairs; all distinct.")
    return m


HANDLERS["C15"] = c15


def _progsim_plus(names, text):
    def handler(prop, tier, seed, core):
        m = core.check_progsim_family(prop, tier, seed)
        work = os.path.join(core.WORK, prop)
        known_sigs = [e["signature"] for e in core.known_for(prop)]
        add_hostile(m, core, prop, work, tier, names, known_sigs)
        m["rule"] = core.RULES["progsim"] + " " + text
        return m
    return handler


HANDLERS["C13"] = _progsim_plus(["plain:enter-on-poll-names"],
                                "One separate process (build without hooks): enter_on_poll under five names, the empty one included, polled three times each: three per-poll spans of exactly that name under the local parent, the inner spans under them.")
HANDLERS["C14"] = _progsim_plus(["plain:stream-with-exact-size-hint", "plain:adapter-call-in-drop-while-unwinding"],
                                "One separate process (build without hooks): a stream with the default and one with an exact size_hint, polled to None through in_span: the span has the children of every poll including the last and covers the whole run.")
HANDLERS["C18"] = _progsim_plus(["plain:stream-with-exact-size-hint"],
                                "One separate process (build without hooks): the span of a stream with an exact size_hint lasts until the poll that returned None (duration bracketed by the sleeps inside and the wall time of the run).")
HANDLERS["C05"] = _progsim_plus(["plain:property-closure-owning-a-guard"],
                                "One separate process (build without hooks): a property closure that owns the guard of an unsampled scope nested in a sampled one: nothing attached inside the unsampled scope may be delivered, the sampled trace keeps exactly its own attachments.")
