#!/usr/bin/env python3
"""Writes /verif/MANIFEST.json from the table below (kept in one place so that it stays consistent)."""
import json, os, subprocess

VERIF = os.path.dirname(os.path.dirname(os.path.abspath(__file__)))

# property -> (engine, technique, level text, level note, design ref)
CHECKS = {
 "C01": ("progsim+stress", "runtime monitoring: exactly-once delivery oracle over reporter output vs shadow model, controlled collector scheduling",
  "Every finished span of every generated program is looked up in the union of all report() calls (multiset, unique names); whole-cycle schedules also demand the first cycle or flush() after the finish; stepped schedules park the collector between receivers and inside try_recv while threads push and exit; templates enumerate those windows exhaustively; a free-running stress with the real background collector checks the no-further-call clause in collector cycles. Held on the executions observed.",
  "the shadow model of the API; hook points only observe/park; schedules cover fastrace-visible steps (queue operations x collector points), not arbitrary instruction interleavings", "DESIGN.md §5 C01"),
 "C02": ("progsim", "runtime monitoring: every field of every delivered record joined (unique names) against the shadow model's tree",
  "trace id, parent id (learned from the delivered parent record), per-parent fan-out, non-zero and distinct span ids are compared for every record of thousands of random well-scoped programs with boundary ids, under whole-cycle and stepped placements, both configurations.",
  "ids of spans that are never delivered (unsampled) cannot be learned and are not compared", "DESIGN.md §5 C02"),
 "C03": ("progsim", "runtime monitoring: per-trace report-call oracle (single batch, after root finish, complete) under controlled mid-drain schedules",
  "cancelable(true): for each trace the set of report calls carrying its records must be one call made after the root's commit was sent and must contain every span that finished before the root; random stepped schedules and exhaustively enumerated templates put thread switches between the draining of two receivers.",
  "happens-before is what the harness creates (one logical thread runs at a time); one recorded finding (see known_findings.json)", "DESIGN.md §5 C03"),
 "C04": ("progsim", "runtime monitoring: absence oracle for cancelled traces over the whole report log + differential no-op clause",
  "cancelable(true): no record of a cancelled trace may appear in any report call, whatever thread cancels/finishes and wherever cycles fall (stepped + templates incl. full-ring replay order); other traces sharing spans must still get their copies; default config: programs with cancel() calls must deliver exactly what the model without them predicts, attachments included.",
  "same as C03", "DESIGN.md §5 C04"),
 "C05": ("progsim", "runtime monitoring: absence oracle for unsampled traces + returned-context comparison",
  "programs with ~45% unsampled roots reaching descendants through every propagation route; nothing of an unsampled trace may be delivered, mixed-parent spans only under sampled parents, from_span/current_local_parent must return sampled=false with the right trace id.",
  "span ids of unsampled spans are compared with each other (from_span vs current_local_parent), not with records", "DESIGN.md §5 C05"),
 "C06": ("progsim", "runtime monitoring: attachment oracle (exactly once, right record, bytes, per-route order) with whole-cycle placements",
  "unique keys / event names make every attachment traceable; for each delivered copy the expected attachments under the stated provisos must be present exactly once, in per-(route,thread) order, byte-equal (decorated UTF-8, NUL, 5 kB strings), and nothing else may be on it; cycles are placed between every pair of operations and inside operations.",
  "cycles are atomic here (the statement quantifies over placements between attachment and finish); two recorded findings", "DESIGN.md §5 C06"),
 "C07": ("progsim+hostile", "runtime monitoring: panic / abort / no-return observation under hostile generated programs and one-process-per-scenario runs",
  "Random programs from a hostile profile (no-op and empty parent sets, scopes on spans without a trace, unsampled roots, property closures that themselves run API programs, all adapter kinds, thread exits) run under whole-cycle and stepped schedules with every call wrapped in catch_unwind and a 20 s baton watchdog; a dying shard is an abort. Separate processes run every public call before set_reporter, 4200 nested scopes, 10400 local spans in a scope, a 25000-command flood of an undrained ring with per-call latency, and the whole call list from thread-local destructors in each registration order of user / fastrace / rand thread-locals (debug assertions on; thorough also release).",
  "guards and local spans are released in reverse order (the stated precondition); flush() inside report() and a thread's very first send while the collector is parked inside a drain are not exercised; one recorded finding", "DESIGN.md §5 C07"),
 "C08": ("progsim", "runtime monitoring: collector-state introspection hook compared with the model at quiescent points",
  "after every program (roots deliberately left in flight across programs are not used; each program ends quiescent) collector_stats() must show exactly the expected active collect ids, no buffered sets / parked attachments for finished traces, empty scratch vectors and one receiver per live thread; histories include thread exits, cancels, roots finished on other threads, stepped mid-drain schedules.",
  "collect ids are predicted from the order of sampled root creations in the process", "DESIGN.md §5 C08"),
 "C09": ("progsim+hostile", "runtime monitoring: fault injection (full command ring, exceeded scope limits) with an exact permitted-omission set from the Push hook",
  "A thread's ring is really filled (10300+ commands with the collector held back) at random points of random programs; every operation kind is issued during the episode; the hook's pre-push `full` reading yields exactly which commands may have been dropped, so the oracles demand everything else, check every delivered record in full, demand that cancelled traces stay away and that finished traces leave no entry once the thread has sent again, and that a fresh trace after the drain is complete; templates step the collector between the replayed pushes of parked cancel/commit and run 10300-span scopes and 4100 nested scopes against the model; per-call latency with an undrained ring is measured in separate processes.",
  "a signal parked at thread exit with a full ring may be lost (the statement says: while the thread lives); one recorded finding (parked cancel overtaken by another thread's commit)", "DESIGN.md §5 C09"),
 "C10": ("progsim", "runtime monitoring: frame-condition probes (current_local_parent before open == after close) + model comparison",
  "every scope opened by a generated program (guards, local spans, local collectors, to depth 64) is bracketed by current_local_parent() probes that must agree; every probe is also compared with the model, and the parents/attachment targets of everything created afterwards are checked through the record oracles.",
  "inside a LocalCollector the value of current_local_parent() is what the model derives from the code (None)", "DESIGN.md §5 C10"),
 "C11": ("progsim", "runtime monitoring: returned contexts compared with delivered records; remote child created from each context",
  "from_span/current_local_parent are called at random program points on every span kind; the value is compared after delivery with the record of the span it names; a root is created from it (directly or via traceparent text) and must be delivered in that trace under that span.",
  "contexts of never-delivered spans are only checked for trace id / flag / mutual consistency", "DESIGN.md §5 C11"),
 "C12": ("codec", "runtime monitoring: differential oracle (independent char-level reference classifier) over generated inputs",
  "decode(encode(c)) == c and the 55-character form for boundary and random contexts; None for every input the statement requires None for (field count, version, empty / non-hex / overflowing fields), values equal to the reference for well-formed text, no panic on any input; Display/FromStr/serde of both id types round-trip as fixed-width lowercase hex.",
  "2^193 contexts and all strings are sampled by class, boundary and mutation, not enumerated; a leading '+' in a field is recorded as unspecified", "DESIGN.md §5 C12"),
 "C13": ("progsim", "runtime monitoring: scripted inner futures driven poll by poll; all record oracles + per-poll context probes",
  "in_span / enter_on_poll adapters around scripted futures whose polls run random operations: probes inside and around every poll, delivery position (not before completion, in the first cycle after it), durations, completeness of what the final poll recorded (also when the span is the root, cancelable) with cycles placed at every queue operation of the poll; templates enumerate them.",
  "executor = explicit polls with a no-op waker on arbitrary logical threads", "DESIGN.md §5 C13"),
 "C14": ("progsim", "runtime monitoring: scripted inner streams/sinks driven call by call; same oracles as C13",
  "fastrace-futures InSpan around scripted Stream/Sink objects: poll_next/poll_ready/start_send/poll_flush/poll_close with Pending/item/None/Err outcomes, finish exactly on None / close / drop, final-call recordings complete, context restored.",
  "same as C13", "DESIGN.md §5 C14"),
 "C15": ("twins", "runtime monitoring: differential oracle between annotated and unannotated twins of generated functions, plus record checks",
  "~100 functions (hand-written corpus over the macro's accepted forms + seeded grammar-generated ones) exist as plain and #[trace] twins; on ~1500 inputs return values, ordered body side effects, panic payloads and dropped-argument multisets must be equal, without a local parent nothing may be recorded, under one the records must be one per traced entry with the configured / func_path!() name, the formatted properties, and the recorded (span, parent) pairs must equal the observed call tree.",
  "the macro accepts any Rust function: the corpus is a grammar sample; relative drop order of arguments is not compared; for async-trait methods the name with or without ::{{closure}} is accepted", "DESIGN.md §5 C15"),
 "C16": ("inert+progsim", "runtime monitoring: closure-invocation / reporter-call / thread counters over random API sequences in a build without `enable`, closure counts vs model in the enabled build",
  "A binary linked against fastrace without `enable` (own workspace, so feature unification cannot turn it on) drives seeded random sequences over the whole public API: zero closure invocations, zero report() calls, unchanged /proc/self/task count across set_reporter and flush, None from from_span/current_local_parent/elapsed, empty to_span_records, unchanged results of #[trace] functions and adapters. Enabled build: for every closure-taking operation of generated programs the number of invocations must equal the model's (zero for no-op spans, spans derived from them, local operations without a recording scope); a separate process checks the calls made before set_reporter.",
  "closures given to Event::with_properties run eagerly in the enabled build by design and are not counted there", "DESIGN.md §5 C16"),
 "C17": ("progsim", "runtime monitoring: copy-equality oracle over pushed local-span sets and to_span_records",
  "collected forests with events/properties/open spans pushed to 1-8 parents: all delivered copies must agree in id, name, properties, events, duration (2 ns) and hang under their push parent; to_span_records(ctx) must equal the model and the delivered copies.",
  "same-trace pushes hit a recorded finding and are tagged", "DESIGN.md §5 C17"),
 "C18": ("progsim", "runtime monitoring: clock-bracket oracle on every delivered record",
  "durations must lie within harness Instant brackets around creation and finish (tolerance 200 us + 0.1%), begin times within the wall-clock window of the creating call, local spans nest and do not overlap, events lie in their span, elapsed() within its bracket; seeded spins of up to 3 ms separate events; a cycle (own clock anchor) may fall anywhere.",
  "TSC-based fastant clock calibrated to 1e-5; tolerances two orders above that", "DESIGN.md §5 C18"),
 "C19": ("wire", "runtime monitoring: conformance oracle with independent Thrift-compact / msgpack decoders on loopback sockets and a capturing SpanExporter",
  "every record of random batches must arrive exactly once, in order, with ids, name, times (us for Jaeger, ns otherwise), properties and events unchanged and on the right span, in bytes that independent decoders accept without trailing data (emitBatch oneway message; msgpack [[span..]] with struct maps; SpanData).",
  "times near u64::MAX (begin + duration overflow) are outside the stated input space; loopback datagram loss is told apart from reporter loss by re-sending", "DESIGN.md §5 C19"),
 "C20": ("wire", "runtime monitoring: datagram-size and exactly-once oracle over boundary-tuned batches on loopback UDP",
  "for batches straddling the 8000-byte limit every datagram must be smaller than 8000 bytes, the concatenation of the decoded datagrams must be the batch minus exactly the spans that cannot fit alone (sizes from an independent encoder cross-checked against the real bytes), in order, and report() must return.",
  "same as C19", "DESIGN.md §5 C20"),
}

ORDER = ["C%02d" % i for i in range(1, 21)]


def main():
    repo_commits = subprocess.run(["git", "-C", "/repo", "log", "--format=%H %s"], stdout=subprocess.PIPE, text=True).stdout.splitlines()
    hook_commits = [l.split()[0] for l in repo_commits if " verif:" in l]
    checks = []
    for p in ORDER:
        if p not in CHECKS:
            continue
        eng, tech, text, note, ref = CHECKS[p]
        checks.append({
            "property_id": p,
            "quick_cmd": "./check %s --tier quick" % p,
            "thorough_cmd": "./check %s --tier thorough" % p,
            "evidence_file": "/verif/evidence/%s.json" % p,
            "replay_cmd_template": "./check replay {path}",
            "engine": eng,
            "level_claimed": {"category": "exploration", "text": text, "design_ref": ref},
            "level_note": note,
            "technique": tech,
        })
    na_path = os.path.join(VERIF, "tools", "not_applicable.json")
    na = json.load(open(na_path)) if os.path.exists(na_path) else []
    claimed = {c["property_id"] for c in checks}
    for p in ORDER:
        if p not in claimed and not any(x["property_id"] == p for x in na):
            na.append({"property_id": p, "reason": "check not built yet in this session (work in progress, see DESIGN.md)"})
    man = {
        "version": 1,
        "setup_cmd": "./setup.sh",
        "hooks": {
            "guard": "cargo feature `verif` of the fastrace crate (off by default)",
            "enable": "harness crates depend on fastrace by path with features = [\"enable\", \"verif\"]",
            "baseline_off_cmd": "cd /repo && cargo nextest run --workspace --no-fail-fast --offline --test-threads 8 || cargo test --workspace --no-fail-fast --offline",
            "source_commits": hook_commits,
            "add_only": True,
        },
        "engines": [
            {"name": "codec", "path": "harness/hx/src/bin/codec.rs", "serves_properties": ["C12"],
             "kind_free_text": "pure-function monitoring of the text codecs against an independent reference"},
            {"name": "twins", "path": "harness/twins/src/main.rs (+ tools/gen_twins.py)", "serves_properties": ["C15"],
             "kind_free_text": "generated plain/#[trace] function twins run on the same inputs; differential + record oracle"},
            {"name": "wire", "path": "harness/hw/src/bin/wire.rs", "serves_properties": ["C19", "C20"],
             "kind_free_text": "real reporters -> loopback UDP / HTTP / capturing exporter -> independent decoders -> field-by-field comparison"},
            {"name": "inert", "path": "harness-inert/src/main.rs", "serves_properties": ["C16"],
             "kind_free_text": "random API sequences against a build without the `enable` feature; counters are the observation"},
            {"name": "hostile", "path": "harness/hx/src/bin/hostile.rs", "serves_properties": ["C01", "C02", "C03", "C04", "C06", "C07", "C08", "C09", "C10", "C11"],
             "kind_free_text": "one-process-per-scenario hostile API use (limits, TLS teardown, pre-reporter, full ring, deep backlogs, id wrap, heap over identical rounds, big cycles); exit status and JSON are the observation"},
            {"name": "plain", "path": "harness-plain/src/main.rs", "serves_properties": ["C01", "C03", "C04", "C05", "C06", "C07", "C08", "C13", "C14", "C18"],
             "kind_free_text": "public-API-only scenarios against fastrace built with `enable` alone (no `verif` instrumentation): the feature set users build"},
            {"name": "progsim", "path": "harness/hx/src/bin/progsim.rs", "serves_properties": sorted(p for p in claimed if "progsim" in CHECKS[p][0]),
             "kind_free_text": "random and template span-API programs on real threads under a baton scheduler, collector stepped through hook points, shadow-model oracles"},
        ],
        "checks": checks,
        "not_applicable": na,
        "notes": "Runtime monitoring only. Exit codes of ./check: 0 held on what was observed, 1 violation (VIOLATION line), 2 inconclusive (INCONCLUSIVE line). Known findings: /verif/known_findings.json.",
    }
    json.dump(man, open(os.path.join(VERIF, "MANIFEST.json"), "w"), indent=1)
    print("MANIFEST.json: %d checks, %d not_applicable" % (len(checks), len(na)))


if __name__ == "__main__":
    main()
