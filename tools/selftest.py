#!/usr/bin/env python3
"""Mutation self-test: apply each seeded change to /repo's working tree, run the quick checks of the
listed properties, restore the tree, and record which checks reported a violation.

usage: selftest.py [--only name,name] [--props C01,C03] [--tier quick]
Reads /verif/seeded/*/meta.json ({"breaks": [...], "must_not_alarm": [...]}); results are written to
/verif/selftest/results.json (merged by mutant name)."""
import json, os, subprocess, sys, time

VERIF = "/verif"


def run(cmd, **kw):
    return subprocess.run(cmd, stdout=subprocess.PIPE, stderr=subprocess.STDOUT, text=True, **kw)


def main():
    only = None
    props_override = None
    tier = "quick"
    a = sys.argv[1:]
    if "--only" in a:
        only = a[a.index("--only") + 1].split(",")
    if "--props" in a:
        props_override = a[a.index("--props") + 1].split(",")
    if "--tier" in a:
        tier = a[a.index("--tier") + 1]
    out_path = os.path.join(VERIF, "selftest", "results.json")
    os.makedirs(os.path.dirname(out_path), exist_ok=True)
    results = json.load(open(out_path)) if os.path.exists(out_path) else {}
    names = sorted(os.listdir(os.path.join(VERIF, "seeded")))
    for name in names:
        d = os.path.join(VERIF, "seeded", name)
        patch = os.path.join(d, "patch.diff")
        if not os.path.exists(patch) or (only and name not in only):
            continue
        meta = json.load(open(os.path.join(d, "meta.json"))) if os.path.exists(os.path.join(d, "meta.json")) else {}
        props = props_override or (meta.get("breaks", []) + meta.get("must_not_alarm", []))
        if not props:
            continue
        if run(["git", "-C", "/repo", "diff", "--quiet"]).returncode != 0:
            print("selftest: /repo is dirty, refusing")
            return 2
        r = run(["git", "-C", "/repo", "apply", patch])
        if r.returncode != 0:
            print("%s: patch does not apply: %s" % (name, r.stdout[-300:]))
            continue
        entry = results.setdefault(name, {})
        try:
            for p in props:
                t0 = time.time()
                env = dict(os.environ, VERIF_SEED=os.environ.get("VERIF_SEED", "1"))
                r = run([os.path.join(VERIF, "check"), p, "--tier", tier], cwd=VERIF, env=env)
                viol = [l for l in r.stdout.splitlines() if l.startswith("VIOLATION")]
                entry[p] = {
                    "rc": r.returncode,
                    "detected": r.returncode == 1 and bool(viol),
                    "first": viol[0][:400] if viol else "",
                    "wall_s": round(time.time() - t0, 1),
                    "tier": tier,
                    "expected": "detect" if p in meta.get("breaks", []) else "silent",
                }
                print("%-28s %s rc=%d %s %.0fs" % (name, p, r.returncode, "DETECTED" if entry[p]["detected"] else "silent", time.time() - t0), flush=True)
                if r.returncode == 2:
                    print("     " + " | ".join(l for l in r.stdout.splitlines() if "INCONCLUSIVE" in l)[:400])
        finally:
            run(["git", "-C", "/repo", "checkout", "--", "."])
            run(["git", "-C", "/repo", "clean", "-fdq", "--", "fastrace", "fastrace-futures", "fastrace-macro", "fastrace-jaeger", "fastrace-datadog", "fastrace-opentelemetry"])
        json.dump(results, open(out_path, "w"), indent=1, sort_keys=True)
    return 0


if __name__ == "__main__":
    sys.exit(main())
