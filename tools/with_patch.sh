#!/bin/sh
# usage: with_patch.sh <patch-file | revert:<commit>> <command...>
# applies the change to /repo's working tree, runs the command, restores the tree.
spec="$1"; shift
cd /repo || exit 9
if ! git diff --quiet; then echo "with_patch: /repo working tree is dirty" >&2; exit 9; fi
case "$spec" in
  revert:*) c="${spec#revert:}"; git diff "$c^" "$c" | git apply -R || { echo "cannot revert $c" >&2; exit 9; } ;;
  *) git apply "$spec" || { echo "cannot apply $spec" >&2; exit 9; } ;;
esac
cd /verif
"$@"
rc=$?
git -C /repo checkout -- . 
git -C /repo clean -fdq -- fastrace fastrace-futures fastrace-macro fastrace-jaeger fastrace-datadog fastrace-opentelemetry 2>/dev/null
exit $rc
