#!/usr/bin/env python3
"""Generates /verif/harness/twins/src/gen.rs: every function of a hand-written corpus plus `--n`
seeded grammar-generated functions, once in `mod plain` and once in `mod traced` (with the
`#[fastrace::trace(..)]` attribute), and one `case_*` driver per function that runs both twins on the
same inputs.  usage: gen_twins.py --seed S --n N [--out path]"""
import random, sys, os, re, json

HERE = "let _here = rt::here(fastrace::func_path!());"


class F:
    def __init__(self, name, code, calls, attr="", is_async=False, async_trait=False, eop=False, lit=None, props=None, prelude="", traced_names=None, split=None):
        self.name = name          # function name (last path segment) used for expectations
        self.code = code          # item source with the marker #[TRACE]
        self.calls = calls        # list of (input label, expr template using M:: for the module)
        self.attr = attr
        self.is_async = is_async
        self.async_trait = async_trait
        self.eop = eop
        self.lit = lit
        self.props = props or []  # list of (key, rust expr -> String), evaluated inside the case with the input bound
        self.prelude = prelude    # statements binding the input variables for props (per call label)
        self.traced_names = traced_names or [name]
        self.split = split or []  # (label, expr): the call is made under rt::under_split_parent, the poll outside


def corpus():
    c = []
    c.append(F("f1", "#[TRACE]\npub fn f1() { HERE rt::log(\"f1\"); }", [("()", 'format!("{:?}", M::f1())')]))
    c.append(F("f2", "#[TRACE]\npub fn f2(x: u32) -> u32 { HERE rt::log(format!(\"x={x}\")); x.wrapping_mul(3).wrapping_add(1) }",
               [(str(x), 'format!("{:?}", M::f2(%du32))' % x) for x in (0, 1, 7, 4294967295)]))
    c.append(F("f3", "#[TRACE]\npub fn f3(x: i64) -> &'static str { HERE if x < 0 { rt::log(\"neg\"); return \"neg\"; } rt::log(\"pos\"); \"pos\" }",
               [(str(x), 'format!("{:?}", M::f3(%di64))' % x) for x in (-3, 0, 5)]))
    c.append(F("f4", "#[TRACE]\npub fn f4(s: &str) -> Result<u32, String> { HERE let v: u32 = s.parse().map_err(|e| format!(\"bad {s}: {e}\"))?; rt::log(\"parsed\"); Ok(v + 1) }",
               [(repr(s), 'format!("{:?}", M::f4(%s))' % json.dumps(s, ensure_ascii=False)) for s in ("12", "x", "", "4294967295")]))
    c.append(F("f5", "#[TRACE]\npub fn f5(x: u32) -> u32 { HERE rt::log(\"before\"); if x % 3 == 0 { panic!(\"boom {}\", x); } rt::log(\"after\"); x }",
               [(str(x), 'format!("{:?}", M::f5(%du32))' % x) for x in (0, 1, 3, 4)]))
    c.append(F("f6", "#[TRACE]\npub fn f6(n: u32) -> u32 { HERE let mut i = 0u32; let r = loop { i += 1; if i * i > n { break i; } }; rt::log(format!(\"r={r}\")); r }",
               [(str(x), 'format!("{:?}", M::f6(%du32))' % x) for x in (0, 10, 99)]))
    c.append(F("f7", "#[TRACE]\npub fn f7<T: std::fmt::Debug + Clone>(v: T, n: usize) -> Vec<T> where T: Send { HERE rt::log(format!(\"{v:?}\")); vec![v; n] }",
               [("str,2", 'format!("{:?}", M::f7("ab", 2))'), ("u8,0", 'format!("{:?}", M::f7(7u8, 0))'), ("tuple,3", 'format!("{:?}", M::f7((1, "x".to_string()), 3))')]))
    c.append(F("f8", "#[TRACE]\npub fn f8<'a>(a: &'a str, b: &'a str) -> &'a str { HERE if a.len() >= b.len() { a } else { b } }",
               [("ab,c", 'format!("{:?}", M::f8("ab", "c"))'), ("é,zz", 'format!("{:?}", M::f8("é", "zzz"))')]))
    c.append(F("f9", "#[TRACE]\npub fn f9(v: &mut Vec<u32>, x: u32) -> usize { HERE v.push(x); rt::log(format!(\"len={}\", v.len())); v.len() }",
               [(str(x), '{ let mut v = vec![1u32, 2]; let r = M::f9(&mut v, %du32); format!("{:?}|{:?}", r, v) }' % x) for x in (0, 9)]))
    c.append(F("f10", "#[TRACE]\npub fn f10(mut x: u32, (a, b): (u32, u32), [p, q]: [u8; 2]) -> u32 { HERE x += a; rt::log(format!(\"{p}{q}\")); x * b }",
               [("1,(2,3)", 'format!("{:?}", M::f10(1, (2, 3), [4, 5]))'), ("0,(0,0)", 'format!("{:?}", M::f10(0, (0, 0), [0, 9]))')]))
    c.append(F("f11", "#[TRACE]\npub fn f11(d: rt::D, x: u32) -> u32 { HERE rt::log(format!(\"d={}\", d.0)); x + d.0 }",
               [("D5,1", 'format!("{:?}", M::f11(rt::D(5), 1))'), ("D0,0", 'format!("{:?}", M::f11(rt::D(0), 0))')]))
    c.append(F("f12", "#[TRACE]\npub fn f12(_d: rt::D, e: rt::D, x: u32) -> rt::D { HERE rt::log(\"body\"); if x == 0 { return rt::D(99); } e }",
               [("x0", 'format!("{:?}", M::f12(rt::D(1), rt::D(2), 0).0)'), ("x1", 'format!("{:?}", M::f12(rt::D(3), rt::D(4), 1).0)')]))
    c.append(F("f13", "#[TRACE]\npub fn f13(f: impl Fn(u32) -> u32, x: u32) -> u32 { HERE f(f(x)) }",
               [("+1,3", 'format!("{:?}", M::f13(|v| { rt::log(format!("cb{v}")); v + 1 }, 3))')]))
    c.append(F("f14", "#[TRACE]\npub fn f14(xs: Vec<u32>, k: u32) -> Vec<u32> { HERE let g = move |v: u32| v.wrapping_mul(k); xs.into_iter().map(g).collect() }",
               [("[1,2],3", 'format!("{:?}", M::f14(vec![1, 2], 3))'), ("[],0", 'format!("{:?}", M::f14(vec![], 0))')]))
    c.append(F("f15", "#[TRACE]\npub fn f15(n: u32) -> u32 { HERE if n <= 1 { rt::log(\"base\"); 1 } else { n * f15(n - 1) } }",
               [(str(x), 'format!("{:?}", M::f15(%du32))' % x) for x in (0, 1, 5)]))
    c.append(F("f16", "#[TRACE]\npub fn f16(x: u32) -> u32 { HERE rt::log(\"outer\"); let a = f2(x); let b = f6(x); rt::log(\"done\"); a.wrapping_add(b) }",
               [(str(x), 'format!("{:?}", M::f16(%du32))' % x) for x in (2, 50)]))
    c.append(F("f17", "#[TRACE]\npub fn f17(x: u32) -> u32 { HERE x + 17 }", [("4", 'format!("{:?}", M::f17(4))')], attr='name = "custom name é"', lit="custom name é"))
    c.append(F("fb", "#[TRACE]\npub fn fb(x: u32) -> u32 { HERE x + 19 }", [("4", 'format!("{:?}", M::fb(4))')], attr='name = "GET /u/{x} {{y}}"', lit="GET /u/{x} {{y}}"))
    # a function whose own name is `f`: the default name is still its full path (given here as a literal,
    # not through func_path!(), which a change to the path macros would shift along with the recorded name)
    c.append(F("f", "#[TRACE]\npub fn f(x: u32) -> u32 { HERE x + 5 }", [("4", 'format!("{:?}", M::f(4))')], lit="twins::gen::traced::f"))
    c.append(F("f18", "#[TRACE]\npub fn f18(x: u32) -> u32 { HERE x + 18 }", [("4", 'format!("{:?}", M::f18(4))')], attr="short_name = true", lit="f18"))
    c.append(F("f19", "#[TRACE]\npub fn f19(x: u32, s: &str) -> usize { HERE rt::log(\"f19\"); s.len() + x as usize }",
               [("3,'hé'", 'format!("{:?}", M::f19(x, s))'), ("0,''", 'format!("{:?}", M::f19(x, s))')],
               attr='properties = { "k1": "v1", "x": "x is {x}", "dbg": "{s:?} and {{braces}}", "esc": "{{literal}} }}{{", "empty": "" }',
               props=[("k1", '"v1".to_string()'), ("x", 'format!("x is {x}")'), ("dbg", 'format!("{s:?} and {{braces}}")'), ("esc", '"{literal} }{".to_string()'), ("empty", 'String::new()')],
               prelude={"3,'hé'": 'let x = 3u32; let s = "hé";', "0,''": 'let x = 0u32; let s = "";'}))
    c.append(F("S", """#[derive(Debug, Clone)]
pub struct S { pub v: u32 }
impl S {
    #[TRACE]
    pub fn m_ref(&self, y: u32) -> u32 { HERE rt::log(format!("ref{}", self.v)); self.v + y }
    #[TRACE]
    pub fn m_mut(&mut self, y: u32) { HERE self.v += y; rt::log(format!("mut{}", self.v)); }
    #[TRACE]
    pub fn m_own(self) -> u32 { HERE rt::log("own"); self.v * 2 }
    #[TRACE]
    pub fn assoc(y: u32) -> S { HERE S { v: y } }
}""", [("methods", '{ let mut s = M::S::assoc(3); let a = s.m_ref(4); s.m_mut(10); let b = s.clone().m_own(); format!("{:?}|{:?}|{:?}", a, b, s) }')],
               traced_names=["m_ref", "m_mut", "m_own", "assoc"]))
    c.append(F("u1", "#[TRACE]\npub unsafe fn u1(p: *const u32) -> u32 { HERE *p + 1 }", [("ptr", '{ let v = 41u32; format!("{:?}", unsafe { M::u1(&v as *const u32) }) }')]))
    c.append(F("f34", "#[TRACE]\npub fn f34(n: u32) -> impl Iterator<Item = u32> { HERE rt::log(\"make\"); (0..n).map(|v| v * 2) }",
               [("4", 'format!("{:?}", M::f34(4).collect::<Vec<_>>())')]))
    c.append(F("cg", "#[TRACE]\npub fn cg<const N: usize>(a: [u8; N]) -> usize where [u8; N]: Sized { HERE rt::log(format!(\"n{}\", N)); a.iter().map(|x| *x as usize).sum::<usize>() + N }",
               [("3", 'format!("{:?}", M::cg([1u8, 2, 3]))'), ("0", 'format!("{:?}", M::cg::<0>([]))')]))
    c.append(F("at", "/// documented\n#[inline]\n#[TRACE]\n#[allow(clippy::all)]\n#[must_use]\npub fn at(x: u32) -> u32 { HERE rt::log(\"attrs\"); x ^ 0x55 }",
               [("9", 'format!("{:?}", M::at(9))')]))
    c.append(F("nf", "#[TRACE]\npub fn nf(x: u32) -> u32 { HERE fn inner(y: u32) -> u32 { rt::log(\"inner\"); y + 1 } rt::log(\"outer\"); inner(inner(x)) }",
               [("1", 'format!("{:?}", M::nf(1))')], traced_names=["nf"]))
    c.append(F("Bx", """pub struct Bx(pub u32);
impl Bx {
    #[TRACE]
    pub fn boxed(self: Box<Self>, y: u32) -> u32 { HERE rt::log("boxed"); self.0 + y }
    #[TRACE]
    pub fn arced(self: std::sync::Arc<Self>, y: u32) -> u32 { HERE rt::log("arced"); self.0 * y }
}""", [("box+arc", '{ let a = Box::new(M::Bx(2)).boxed(3); let b = std::sync::Arc::new(M::Bx(4)).arced(5); format!("{:?}|{:?}", a, b) }')],
               traced_names=["boxed", "arced"]))
    c.append(F("lp", "#[TRACE]\npub fn lp(xs: &[u32]) -> Option<u32> { HERE for (i, x) in xs.iter().enumerate() { if *x == 0 { rt::log(format!(\"zero at {i}\")); return None; } if *x > 100 { break; } } let s: u32 = xs.iter().sum(); Some(s) }",
               [("[1,2]", 'format!("{:?}", M::lp(&[1, 2]))'), ("[1,0]", 'format!("{:?}", M::lp(&[1, 0]))'), ("[]", 'format!("{:?}", M::lp(&[]))')]))
    c.append(F("d1", "#[TRACE]\npub fn d1(x: u32) -> u32 { HERE x + 1 }", [("4", 'format!("{:?}", M::d1(4))')], attr="short_name = false"))
    c.append(F("d2", "#[TRACE]\npub async fn d2(x: u32) -> u32 { HERE rt::Yield(1).await; x + 2 }", [("4", 'format!("{:?}", rt::block_on(M::d2(4)))')], is_async=True, attr="short_name = false, enter_on_poll = false"))
    c.append(F("d3", "#[TRACE]\npub fn d3(x: u32) -> u32 { HERE x + 3 }", [("4", 'format!("{:?}", M::d3(4))')], attr='name = "d3-name", short_name = false', lit="d3-name"))
    c.append(F("ob", "#[TRACE]\npub fn ob(o: rt::Obs, x: u32) -> u32 { HERE rt::log(\"ob\"); x + o.0 }",
               [("5,1", 'format!("{:?}", M::ob(o.clone(), x))')],
               attr='properties = { "o": "{o}", "od": "<{o:?}>", "x": "{x}" }', props=[("o", 'format!("{o}")'), ("od", 'format!("<{o:?}>")'), ("x", 'format!("{x}")')],
               prelude={"5,1": 'let o = rt::Obs(5); let x = 1u32;'}))
    c.append(F("oa", "#[TRACE]\npub async fn oa(o: rt::Obs, x: u32) -> u32 { HERE rt::Yield(1).await; x * o.0 }",
               [("3,2", 'format!("{:?}", rt::block_on(M::oa(o.clone(), x)))')], is_async=True,
               attr='properties = { "o": "o={o}" }', props=[("o", 'format!("o={o}")')],
               prelude={"3,2": 'let o = rt::Obs(3); let x = 2u32;'}))
    # ---- async ----
    c.append(F("a1", "#[TRACE]\npub async fn a1(x: u32) -> u32 { HERE rt::log(\"a\"); rt::Yield(2).await; rt::log(\"b\"); x + 1 }",
               [(str(x), 'format!("{:?}", rt::block_on(M::a1(%du32)))' % x) for x in (0, 9)], is_async=True))
    c.append(F("a2", "#[TRACE]\npub async fn a2(s: String) -> Result<u32, String> { HERE if s.is_empty() { rt::log(\"empty\"); return Err(\"empty\".into()); } rt::Yield(1).await; let v: u32 = s.parse().map_err(|_| format!(\"bad {s}\"))?; rt::log(\"ok\"); Ok(v) }",
               [(repr(s), 'format!("{:?}", rt::block_on(M::a2(%s.to_string())))' % json.dumps(s, ensure_ascii=False)) for s in ("", "x", "7")], is_async=True))
    c.append(F("a3", "#[TRACE]\npub async fn a3<'a>(s: &'a str, t: &'a mut Vec<usize>) -> &'a str { HERE rt::Yield(1).await; t.push(s.len()); s }",
               [("é", '{ let mut t = vec![]; let r = rt::block_on(M::a3("é", &mut t)).to_string(); format!("{:?}|{:?}", r, t) }')], is_async=True))
    c.append(F("a4", "#[TRACE]\npub async fn a4(x: u32) -> u32 { HERE rt::log(\"pre\"); rt::Yield(1).await; if x == 1 { panic!(\"async boom {}\", x); } x }",
               [(str(x), 'format!("{:?}", rt::block_on(M::a4(%du32)))' % x) for x in (1, 2)], is_async=True))
    c.append(F("a5", "#[TRACE]\npub async fn a5(x: u32) -> u32 { HERE rt::Yield(x % 4).await; rt::log(\"polled\"); x }",
               [(str(x), 'format!("{:?}", rt::block_on(M::a5(%du32)))' % x) for x in (0, 3)], is_async=True, eop=True, attr='name = "poll-span", enter_on_poll = true', lit="poll-span"))
    c.append(F("a6", "#[TRACE]\npub async fn a6(x: u32, s: String) -> usize { HERE rt::Yield(1).await; s.len() + x as usize }",
               [("2,'ab'", 'format!("{:?}", rt::block_on(M::a6(x, s.clone())))')], is_async=True,
               attr='properties = { "x": "{x}", "s": "s={s}" }', props=[("x", 'format!("{x}")'), ("s", 'format!("s={s}")')],
               prelude={"2,'ab'": 'let x = 2u32; let s = "ab".to_string();'}))
    c.append(F("a7", "#[TRACE]\npub async fn a7(x: u32) -> u32 { HERE let a = a1(x).await; rt::log(\"mid\"); let b = f2(a); a + b }",
               [("3", 'format!("{:?}", rt::block_on(M::a7(3)))')], is_async=True))
    c.append(F("a8", "#[TRACE]\npub async fn a8(d: rt::D, _unused: rt::D) -> u32 { HERE rt::Yield(1).await; rt::log(format!(\"d{}\", d.0)); d.0 }",
               [("D", 'format!("{:?}", rt::block_on(M::a8(rt::D(8), rt::D(9))))')], is_async=True))
    c.append(F("a9", "#[TRACE]\npub async fn a9<T: std::fmt::Debug + Send + 'static>(v: T) -> String { HERE rt::Yield(1).await; format!(\"{v:?}\") }",
               [("gen", 'format!("{:?}", rt::block_on(M::a9(vec![1u8, 2])))')], is_async=True))
    c.append(F("tm", """#[async_trait::async_trait]
pub trait Tr { async fn tm(&self, x: u32) -> u32; }
pub struct Imp(pub u32);
#[async_trait::async_trait]
impl Tr for Imp {
    #[TRACE]
    async fn tm(&self, x: u32) -> u32 { HERE rt::log("tm"); rt::Yield(1).await; x * self.0 }
}""", [("2*3", '{ use M::Tr; format!("{:?}", rt::block_on(M::Imp(3).tm(2))) }')], is_async=True, async_trait=True,
               split=[("2*3", '{ use M::Tr; let imp = M::Imp(3); let fut = rt::under_split_parent(|| imp.tm(2)); format!("{:?}", rt::block_on(fut)) }')]))
    c.append(F("tp", """#[async_trait::async_trait]
pub trait Tr3 { async fn tp(&self, x: u32) -> u32; }
pub struct Imp3(pub u32);
#[async_trait::async_trait]
impl Tr3 for Imp3 {
    #[TRACE]
    async fn tp(&self, x: u32) -> u32 { HERE rt::Yield(x % 4).await; rt::log("tp"); x + self.0 }
}""", [(str(x), '{ use M::Tr3; format!("{:?}", rt::block_on(M::Imp3(3).tp(%du32))) }' % x) for x in (0, 2, 3)], is_async=True, async_trait=True, eop=True,
               attr='name = "tp-poll", enter_on_poll = true', lit="tp-poll"))
    c.append(F("bx", """#[TRACE]
pub fn bx(x: u32) -> std::pin::Pin<Box<dyn std::future::Future<Output = u32> + Send>> { Box::pin(async move { HERE rt::Yield(x % 3).await; rt::log("bx"); x * 2 }) }""",
               [(str(x), 'format!("{:?}", rt::block_on(M::bx(%du32)))' % x) for x in (0, 1, 2)], is_async=True, async_trait=True, eop=True,
               attr='name = "bx-poll", enter_on_poll = true', lit="bx-poll"))
    # a hand-written function of the async-trait shape whose body does something before it pins the future
    c.append(F("bs", """#[TRACE]
pub fn bs(x: u32) -> std::pin::Pin<Box<dyn std::future::Future<Output = u32> + Send>> { rt::log(format!("bs-prepare {x}")); Box::pin(async move { HERE rt::Yield(x % 2).await; rt::log("bs"); x + 1 }) }""",
               [(str(x), 'format!("{:?}", rt::block_on(M::bs(%du32)))' % x) for x in (0, 1)], is_async=True, async_trait=True))
    # an async factory: an async fn whose tail expression is a pinned future; the span belongs to the call, not to what it returns
    c.append(F("af", """#[TRACE]
pub async fn af(x: u32) -> std::pin::Pin<Box<dyn std::future::Future<Output = u32> + Send>> { HERE rt::log(format!("af-prepare {x}")); rt::Yield(x % 2).await; Box::pin(async move { rt::log("af-inner"); rt::Yield(1).await; x + 7 }) }""",
               [(str(x), '{ let inner = rt::block_on(M::af(%du32)); rt::log("af-returned"); format!("{:?}", rt::block_on(inner)) }' % x) for x in (0, 1)], is_async=True,
               split=[("1", '{ let inner = rt::under_split_parent(|| rt::block_on(M::af(1u32))); rt::log("af-returned"); format!("{:?}", rt::block_on(inner)) }')]))
    c.append(F("am", """pub trait Tr2 { fn am(&self, x: u32) -> impl std::future::Future<Output = u32>; }
pub struct Imp2(pub u32);
impl Tr2 for Imp2 {
    #[TRACE]
    async fn am(&self, x: u32) -> u32 { HERE rt::Yield(2).await; rt::log("am"); x + self.0 }
}""", [("2+5", '{ use M::Tr2; format!("{:?}", rt::block_on(M::Imp2(5).am(2))) }')], is_async=True))
    return c


def gen_function(r, i):
    """a seeded function over a small grammar: params a: u32, b: i64, s: String, v: &mut Vec<u32>, d: rt::D; returns Result<u32, String>"""
    is_async = r.random() < 0.45
    name = "g%d" % i
    use_v = r.random() < 0.5
    use_d = r.random() < 0.4
    params = ["a: u32", "b: i64", "s: String"]
    if use_v:
        params.append("v: &mut Vec<u32>")
    if use_d:
        params.append("d: rt::D")
    stmts = []
    n = r.randint(2, 8)
    for _ in range(n):
        k = r.randint(2, 7)
        k2 = r.randint(0, 1000)
        choices = [
            'rt::log(format!("a={}", a));',
            'let a = a.wrapping_mul(%d).wrapping_add(%d);' % (k, k2),
            'if a %% %d == 0 { rt::log("branch%d"); return Ok(a / 2); }' % (k, k),
            'for i in 0..(a % 4) { rt::log(format!("i{}", i)); }',
            'if b < -%d { panic!("negative {}", b); }' % r.randint(0, 6),
            'let s = format!("{}{}", s, a %% %d);' % k,
            'rt::log(format!("s={}", s));',
            'let r: Result<u32, String> = if a %% %d == 1 { Err(format!("e{}", a)) } else { Ok(a) }; let a = r?;' % k,
            'let b = b + a as i64 %% %d;' % k,
            'let a = { let c = |z: u32| z ^ %d; c(a) };' % k2,
            'let a = match a %% 3 { 0 => a + 1, 1 => { rt::log("one"); a }, _ => a.wrapping_sub(%d) };' % k,
        ]
        if use_v:
            choices.append('v.push(a % 100);')
            choices.append('if v.len() > 3 { return Err(format!("full {}", v.len())); }')
        if use_d:
            choices.append('rt::log(format!("d{}", d.0));')
        if is_async:
            choices.append('rt::Yield(%d).await;' % r.randint(0, 3))
            choices.append('rt::Yield(1).await;')
        stmts.append(r.choice(choices))
    body = "\n    ".join(stmts)
    props = []
    attr = ""
    lit = None
    mode = r.randint(0, 5)
    if mode == 0:
        # the configured name is taken as it is written, blanks at its ends and inside included
        pads = ["", "", "", " ", "  ", "\\t"]
        # ... and so are braces: a name is not a format string, whatever the arguments are called
        braces = ["", "", "", " {a}", " {{a}}", " {s}/{b}", " {{}}", " {a:?}", "{{{a}}}"]
        nm = "%sn-%d%s%s%s" % (r.choice(pads), i, r.choice(["", "", " x", "  y"]), r.choice(braces), r.choice(pads))
        attr = 'name = "%s"' % nm
        lit = nm.replace("\\t", "\t")
    elif mode == 1:
        # options written out, including with their default values
        variant = r.randint(0, 3)
        if variant == 0:
            attr = "short_name = true"
            lit = name
        elif variant == 1:
            attr = "short_name = false"
            lit = None
        elif variant == 2:
            attr = "enter_on_poll = false" if is_async else "short_name = false"
            lit = None
        else:
            attr = 'name = "sn-%d", short_name = false' % i
            lit = "sn-%d" % i
    elif mode == 2:
        # property values from a small grammar of format-string pieces: text, escaped braces,
        # placeholders over the arguments; the expected value is format! of the same literal
        pieces_txt = ["", "x", "v %d" % i, "é", " ", "=", "a-b", "100%", "#"]
        pieces_esc = ["{{", "}}", "{{}}", "}}{{", "{{{{", "}}}}"]
        pieces_ph = ["{a}", "{b}", "{s}", "{b:?}", "{s:?}", "{a:>5}", "{a:#x}", "{b:+}", "{a:04}"]
        kv = []
        for j in range(r.randint(1, 4)):
            shape = r.randint(0, 5)
            n = r.randint(1, 4)
            if shape == 0:
                segs = [r.choice(pieces_txt) for _ in range(n)]
            elif shape == 1:
                segs = [r.choice(pieces_txt + pieces_esc) for _ in range(n)]
            elif shape == 2:
                segs = [r.choice(["}}", "}} }}", "a }} b", "}}}}"])]
            elif shape == 3:
                segs = [r.choice(["{{", "{{ {{", "a {{ b", "{{{{"])]
            else:
                segs = [r.choice(pieces_txt + pieces_esc + pieces_ph) for _ in range(n)]
            val = "".join(segs)
            kv.append(("k%d_%d" % (i, j), val))
        attr = "properties = { %s }" % ", ".join("%s: %s" % (json.dumps(k), json.dumps(v, ensure_ascii=False)) for k, v in kv)
        props = [(k, "format!(%s)" % json.dumps(v, ensure_ascii=False)) for k, v in kv]
    eop = False
    if is_async and mode == 3:
        attr = 'name = "p-%d", enter_on_poll = true' % i
        lit = "p-%d" % i
        eop = True
    kw = "pub async fn" if is_async else "pub fn"
    code = "#[TRACE]\n%s %s(%s) -> Result<u32, String> {\n    HERE\n    %s\n    Ok(a ^ (b as u32) ^ s.len() as u32)\n}" % (kw, name, ", ".join(params), body)
    calls = []
    prelude = {}
    avals = [0, 1, 2, 3, 5, 6, 7, 10, 12, 35, 4294967295]
    bvals = [-7, -1, 0, 4]
    svals = ["", "é", "abc"]
    for _ in range(32):
        a, b, s = r.choice(avals), r.choice(bvals), r.choice(svals)
        label = "%d,%d,%s" % (a, b, s)
        if label in prelude:
            continue
        args = ["a", "b", "s.clone()"]
        pre = "let a = %du32; let b = %di64; let s = %s.to_string();" % (a, b, json.dumps(s, ensure_ascii=False))
        if use_v:
            args.append("&mut v")
        if use_d:
            args.append("rt::D(%d)" % (a % 50))
        call = "M::%s(%s)" % (name, ", ".join(args))
        if is_async:
            call = "rt::block_on(%s)" % call
        expr = "{ %s let r = %s; format!(\"{:?}%s\", r%s) }" % ("let mut v = vec![1u32];" if use_v else "", call, "|{:?}" if use_v else "", ", v" if use_v else "")
        prelude[label] = pre
        calls.append((label, expr))
    return F(name, code, calls, attr=attr, is_async=is_async, eop=eop, lit=lit, props=props, prelude=prelude)


def emit(fs, seed):
    out = []
    out.append("// GENERATED by tools/gen_twins.py --seed %d; do not edit\n" % seed)
    out.append("#![allow(unused_variables, unused_mut, dead_code, unused_imports, clippy::all, unreachable_code, non_shorthand_field_patterns)]\n")
    out.append("use crate::rt;\nuse crate::{H, NameExp, TraceExp};\n\npub const SEED: u64 = %d;\n" % seed)
    for mod in ("plain", "traced"):
        out.append("pub mod %s {\n    use crate::rt;\n" % mod)
        for f in fs:
            code = f.code.replace("HERE", HERE)
            if mod == "plain":
                code = re.sub(r"[ \t]*#\[TRACE\]\n", "", code)
            else:
                code = code.replace("#[TRACE]", "#[fastrace::trace(%s)]" % f.attr if f.attr else "#[fastrace::trace]")
            out.append("\n".join("    " + l for l in code.split("\n")) + "\n")
        out.append("}\n")
    out.append("pub fn expectations() -> Vec<TraceExp> {\n    vec![\n")
    for f in fs:
        for tn in f.traced_names:
            name = 'NameExp::Literal(%s)' % json.dumps(f.lit, ensure_ascii=False) if f.lit else "NameExp::Default"
            out.append("        TraceExp { fname: %s, is_async: %s, async_trait: %s, enter_on_poll: %s, name: %s, props: vec![], callees: vec![] },\n" % (
                json.dumps(tn, ensure_ascii=False), str(f.is_async).lower(), str(f.async_trait).lower(), str(f.eop).lower(), name))
    out.append("    ]\n}\n\n")
    for f in fs:
        out.append("fn case_%s(h: &mut H) {\n" % f.name)
        for label, expr in f.calls:
            pre = f.prelude.get(label, "") if isinstance(f.prelude, dict) else ""
            out.append("    {\n        %s\n" % pre)
            if f.props:
                out.append("        h.set_props(%s, vec![%s]);\n" % (json.dumps(f.name, ensure_ascii=False), ", ".join("(%s.to_string(), %s)" % (json.dumps(k), e) for k, e in f.props)))
            out.append("        h.case(%s, %s, &|| %s, &|| %s);\n    }\n" % (json.dumps(f.traced_names[0] if f.name not in f.traced_names else f.name), json.dumps(label, ensure_ascii=False), expr.replace("M::", "plain::"), expr.replace("M::", "traced::")))
        for label, expr in f.split:
            out.append("    h.case_split(%s, %s, &|| %s, &|| %s);\n" % (json.dumps(f.name), json.dumps(label, ensure_ascii=False), expr.replace("M::", "plain::"), expr.replace("M::", "traced::")))
        out.append("}\n\n")
    out.append("pub fn run_all(h: &mut H) {\n")
    for f in fs:
        out.append("    case_%s(h);\n" % f.name)
    out.append("}\n")
    return "".join(out)


def main():
    seed, n, outp = 1, 40, "/verif/harness/twins/src/gen.rs"
    a = sys.argv[1:]
    if "--seed" in a:
        seed = int(a[a.index("--seed") + 1])
    if "--n" in a:
        n = int(a[a.index("--n") + 1])
    if "--out" in a:
        outp = a[a.index("--out") + 1]
    r = random.Random(seed)
    fs = corpus() + [gen_function(r, i) for i in range(n)]
    src = emit(fs, seed)
    old = open(outp).read() if os.path.exists(outp) else None
    if old != src:
        open(outp, "w").write(src)
    print("gen_twins: %d functions (%d generated), %d cases" % (len(fs), n, sum(len(f.calls) for f in fs)))


if __name__ == "__main__":
    main()
