#!/bin/bash
# Runs a command with /repo replaced -- for that command and its children only -- by a private
# clone of /repo's HEAD (mount namespace + bind mount), so that tools which patch /repo's working
# tree (tools/selftest.py, tools/with_patch.sh) cannot disturb anything else that reads /repo, e.g.
# a `vp run` in progress.   usage: [ISO_VERIF=1] tools/iso.sh <command...>
# With ISO_VERIF=1 the command also gets a private copy of /verif (build directories included), so
# that checks can be run in the real /verif at the same time; selftest/results.json is copied back.
set -eu
ISO=/var/tmp/repo-iso-$$
VISO=/var/tmp/verif-iso-$$
# Without ISO_VERIF the target directories under /verif are shared with runs outside the namespace.
# A file that was patched and restored in the clone has a newer time there than in /repo, and the
# artifacts built from the patched clone would look fresh to cargo outside: every such file is
# touched in /repo at the end, so that the next build outside recompiles it.
finish() {
    if [ -d "$VISO" ]; then
        cp "$VISO/selftest/results.json" "/verif/selftest/results.iso-$$.json" 2>/dev/null || true   # merged by hand (several may run side by side)
        rm -rf "$VISO"
    else
        (cd "$ISO" && git ls-files -z | while IFS= read -r -d '' f; do
            if [ -e "/repo/$f" ] && [ "$ISO/$f" -nt "/repo/$f" ]; then touch "/repo/$f"; fi
        done)
    fi
    rm -rf "$ISO"
}
trap finish EXIT
git clone -q /repo "$ISO"
# same file times as /repo, so that cargo does not rebuild the world on every switch
(cd /repo && git ls-files -z | xargs -0 -I{} touch -r "/repo/{}" "$ISO/{}")
if [ "${ISO_VERIF:-0}" = 1 ]; then
    rsync -a --exclude target-asan --exclude target-cov --exclude .work --exclude replays /verif/ "$VISO/"
    unshare -m bash -c 'mount --bind "$0" /repo && mount --bind "$1" /verif && shift && cd /verif && exec "$@"' "$ISO" "$VISO" "$@"
else
    unshare -m bash -c 'mount --bind "$0" /repo && exec "$@"' "$ISO" "$@"
fi
