#!/bin/bash
# Runs a command with /repo replaced -- for that command and its children only -- by a private
# clone of /repo's HEAD (mount namespace + bind mount), so that tools which patch /repo's working
# tree (tools/selftest.py, tools/with_patch.sh) cannot disturb anything else that reads /repo, e.g.
# a `vp run` in progress.   usage: tools/iso.sh <command...>
set -eu
ISO=/var/tmp/repo-iso-$$
# The target directories under /verif are shared with runs outside the namespace. A file that was
# patched and restored in the clone has a newer time there than in /repo, and the artifacts built
# from the patched clone would look fresh to cargo outside: every such file is touched in /repo at
# the end, so that the next build outside recompiles it.
finish() {
    (cd "$ISO" && git ls-files -z | while IFS= read -r -d '' f; do
        if [ -e "/repo/$f" ] && [ "$ISO/$f" -nt "/repo/$f" ]; then touch "/repo/$f"; fi
    done)
    rm -rf "$ISO"
}
trap finish EXIT
git clone -q /repo "$ISO"
# same file times as /repo, so that cargo does not rebuild the world on every switch
(cd /repo && git ls-files -z | xargs -0 -I{} touch -r "/repo/{}" "$ISO/{}")
unshare -m bash -c 'mount --bind "$0" /repo && shift 0 && exec "$@"' "$ISO" "$@"
