#!/usr/bin/env python3
"""Build /verif/vendor: a cargo *directory source* made of hard links to the crates the
repository's own toolchain (cargo 1.80) has unpacked in ~/.cargo/registry.  Offline, idempotent."""
import hashlib, json, os, shutil, subprocess, sys, glob

def main():
    home = os.path.expanduser("~/.cargo/registry")
    out = sys.argv[1] if len(sys.argv) > 1 else "/verif/vendor"
    srcs = sorted(glob.glob(os.path.join(home, "src", "*d8f576*")))
    if not srcs:
        # fall back to any registry that has rtrb (the repo's dependency)
        srcs = [os.path.dirname(p) for p in glob.glob(os.path.join(home, "src", "*", "rtrb-*"))]
    if not srcs:
        print("mkvendor: registry sources not found", file=sys.stderr); return 2
    src = srcs[0]
    cache = os.path.join(home, "cache", os.path.basename(src))
    stamp = os.path.join(out, ".stamp")
    names = sorted(os.listdir(src))
    want = "\n".join(names)
    if os.path.exists(stamp) and open(stamp).read() == want:
        return 0
    if os.path.exists(out):
        shutil.rmtree(out)
    os.makedirs(out)
    for n in names:
        s = os.path.join(src, n)
        if not os.path.isdir(s):
            continue
        d = os.path.join(out, n)
        r = subprocess.run(["cp", "-al", s, d])
        if r.returncode != 0:
            shutil.copytree(s, d, symlinks=True)
        crate = os.path.join(cache, n + ".crate")
        h = hashlib.sha256(open(crate, "rb").read()).hexdigest() if os.path.exists(crate) else None
        ck = os.path.join(d, ".cargo-checksum.json")
        if os.path.exists(ck):
            os.unlink(ck)
        json.dump({"files": {}, "package": h}, open(ck, "w"))
        # marker files of the registry unpacker are harmless
    open(stamp, "w").write(want)
    print(f"mkvendor: {len(names)} crates -> {out}")
    return 0

if __name__ == "__main__":
    sys.exit(main())
