#!/bin/bash
# Which lines of /repo do the workloads of the quick checks execute?  Not a check: a measurement
# that shows where the monitors cannot have seen anything.  Builds the harness binaries with
# -Cinstrument-coverage (nightly), runs every quick check with them, writes coverage/summary.txt
# (per file: executed / executable lines, and the ranges never executed).
set -u
cd /verif
COV=/verif/harness/target-cov
BIN=$(dirname $(ls ~/.rustup/toolchains/nightly*/lib/rustlib/*/bin/llvm-profdata | head -1))
rm -rf /verif/coverage/raw; mkdir -p /verif/coverage/raw
(cd harness && LLVM_PROFILE_FILE=/verif/coverage/raw/build-%p.profraw RUSTFLAGS="-Cinstrument-coverage" cargo +nightly build --release -q -p hx -p hw --bins --target-dir $COV 2>/dev/null) || exit 2
rm -f /verif/coverage/raw/build-*.profraw   # proc macros and build scripts are instrumented too
export HX_COV_DIR=$COV/release LLVM_PROFILE_FILE=/verif/coverage/raw/c-%8m.profraw
for p in ${@:-C01 C02 C03 C04 C05 C06 C07 C08 C09 C10 C11 C12 C13 C14 C16 C17 C18 C19 C20}; do
  VERIF_SEED=${VERIF_SEED:-5} ./check $p --tier quick 2>&1 | grep -E "HELD|VIOLATION|INCONCLUSIVE property" | cut -c1-150
done
$BIN/llvm-profdata merge -sparse /verif/coverage/raw/*.profraw -o /verif/coverage/all.profdata || exit 2
objs=""; for b in progsim stress hostile codec wire; do objs="$objs -object $COV/release/$b"; done
$BIN/llvm-cov export -format=lcov -instr-profile /verif/coverage/all.profdata $objs \
   -ignore-filename-regex='(/verif/|/rustc/|\.cargo|vendor)' > /verif/coverage/all.lcov 2>/dev/null
python3 - <<'PY'
import re, collections
files = collections.OrderedDict(); cur = None
for l in open('/verif/coverage/all.lcov'):
    l = l.strip()
    if l.startswith('SF:'): cur = files.setdefault(l[3:], {})
    elif l.startswith('DA:'):
        n, c = l[3:].split(',')[:2]; n = int(n); cur[n] = max(cur.get(n, 0), int(c))
out = []; tot = hit = 0
for f, d in files.items():
    if not f.startswith('/repo/'): continue
    src = open(f).read().split('\n')
    # lines inside #[cfg(test)] mod tests are not the library
    cut = next((i for i, s in enumerate(src) if s.startswith('#[cfg(test)]')), len(src))
    lines = sorted(n for n in d if n <= cut)
    h = sum(1 for n in lines if d[n] > 0); tot += len(lines); hit += h
    miss = [n for n in lines if d[n] == 0]; rng = []
    for n in miss:
        if rng and n <= rng[-1][1] + 1: rng[-1][1] = n
        else: rng.append([n, n])
    out.append('%-62s %4d/%4d  never executed: %s' % (f[6:], h, len(lines), ' '.join('%d-%d' % (a, b) if a != b else str(a) for a, b in rng) or '-'))
out.append('TOTAL %d/%d lines (%.1f %%)' % (hit, tot, 100.0 * hit / max(tot, 1)))
open('/verif/coverage/summary.txt', 'w').write('\n'.join(out) + '\n'); print('\n'.join(out))
PY
rm -rf /verif/coverage/raw /verif/coverage/all.lcov /verif/coverage/all.profdata
