#!/usr/bin/env python3
"""Prepares scratch worktrees of /repo under /tmp and a TASK.md in each for sub-agents that write
seeded changes.  usage: mk_agent_tasks.py NAME=PROP ...   (PROP = C01..C20, or X for a free choice)
The task text contains the property text(s), the build recipe, and one line per breakage that has
been tried already (from seeded/*/meta.json) -- nothing about how /verif checks anything."""
import json, subprocess, sys, glob

props = {json.loads(l)['id']: json.loads(l) for l in open('/verif/properties.jsonl')}
prev = {}
for f in glob.glob('/verif/seeded/*/meta.json'):
    d = json.load(open(f))
    for p in d.get('breaks', []):
        prev.setdefault(p, []).append(d.get('needs', '')[:230])

HEAD = '''# Task: write one deliberately subtle bug ("seeded change") in a Rust library

You are helping to test a verification framework. The library is `fastrace` (a timeline tracing
library: thread-local span stacks, a global collector fed by per-thread SPSC command channels,
reporters for Jaeger / Datadog / OpenTelemetry, a `#[trace]` macro and future/stream adapters).

You have your own scratch git worktree at `{wt}` (a detached checkout). Work ONLY inside `{wt}`.
Do NOT read, list or modify anything under `/verif` or `/repo` (essential: your work must be
independent of them). Do not commit anything, and do NOT use `git stash` (the stash is shared
between worktrees of this repository; to test without your change use
`git diff -- '*/src/*' > {wt}/p.diff; git apply -R {wt}/p.diff; ...; git apply {wt}/p.diff`).
The sandbox has no network; build with `cargo ... --offline` from inside the worktree
(`cargo build -p fastrace@0.7.9 --offline`, `cargo nextest run --workspace --offline --no-fail-fast`;
the first build takes a couple of minutes). The `fastrace` package must be addressed as
`fastrace@0.7.9` in `-p` (another version is in the lock file). Two existing tests,
`span::tests::span_with_parents` and `span::tests::span_push_child_spans`, are known to fail
spuriously in about 1 of 300 runs (a mock-library race); re-run the suite if only one of them fails.
'''
TAIL = '''
## What to do

Make ONE small, realistic change anywhere in the library sources that BREAKS this property. The
choice of where and how is yours. The framework under test checks the property by running many
thousands of randomly generated API programs and thread / collector-cycle schedules against a
reference model, plus a number of hand-written scenarios (for the reporter and codec properties:
many thousands of generated inputs decoded by an independent decoder). Try to find a breakage that
such testing would plausibly MISS: a rare conjunction of conditions, an unusual but legal way of
using the API, a specific value or count, a specific ordering of events on different threads, an
API entry point, trait method, cargo feature, build configuration, environment or option that is
easy to forget -- while still being a realistic mistake (a plausible refactoring / optimisation /
"robustness fix" that a reviewer could wave through), not an artificial `if x == 12345` trap. Read
the code carefully before choosing.

These breakages have been tried already -- pick something DIFFERENT in kind:
{tried}

Requirements:

 (a) the workspace still compiles (also with `--features enable,verif` on the fastrace crate),
 (b) the existing test suite still passes: `cargo nextest run --workspace --offline --no-fail-fast`
     (47 tests) -- run it with your change applied and report the result,
 (c) ordinary simple use of the API must still behave correctly.

Then write a DEMONSTRATION: a test file `seeded_demo.rs` in the `tests/` directory of the crate you
changed (for the core crate: `fastrace/tests/seeded_demo.rs`, run with
`cargo test -p fastrace@0.7.9 --offline --test seeded_demo`), using only the public API (its own
recording `Reporter`, `fastrace::flush()`, threads, hand-written wakers / futures as needed; the
cargo feature `verif` of the fastrace crate offers `fastrace::verif::run_collector_cycle()` and a
hook if you need to place collector cycles deterministically -- if you use it, say
`--features enable,verif` in run_demo.sh), that FAILS deterministically with your change and
PASSES without it. Verify both ways.

## Deliverables, in `{wt}/MUTANT/`

* `patch.diff` -- `git diff -- '*/src/*'` (the library change only),
* the demo file(s) and `run_demo.sh` (the exact cargo command; plus `demo_cargo.diff` if the demo
  needs a Cargo.toml change),
* `README.md` -- FIRST LINE: `PROPERTY: Cxx` (the id of the property you break); then what the
  change is, why it looks legitimate, what exactly it takes to manifest and why you think
  randomized testing would miss it, observed output with and without the change, confirmation that
  the existing suite passes with it.

Leave the change applied and the demo in place. End with a 5-10 line summary that names the property.
'''

for a in sys.argv[1:]:
    name, pid = a.split('=')
    wt = '/tmp/wt-%s' % name
    subprocess.run(['git', '-C', '/repo', 'worktree', 'add', '-q', '--detach', wt, 'HEAD'], check=True)
    if pid in props:
        p = props[pid]
        mid = '\n## The property the library is supposed to satisfy\n\n%s -- %s\n\nSTATEMENT: %s\n\nQUANTIFIED OVER: %s\n\n(The code most relevant to it: %s.)\n' % (
            pid, p['title'], p['statement'], p['quantifier']['text'], ', '.join(p['anchors']['files']))
        tried = '\n'.join('  - ' + x for x in prev.get(pid, []))
    else:
        mid = '\n## The properties the library is supposed to satisfy -- choose ANY ONE of them\n\n' + '\n\n'.join(
            '%s -- %s\n  %s' % (i, p['title'], p['statement']) for i, p in sorted(props.items())) + '\n'
        tried = '\n'.join('  - [%s] %s' % (pp, x[:160]) for pp in sorted(prev) for x in prev[pp])
    open(wt + '/TASK.md', 'w').write(HEAD.format(wt=wt) + mid + TAIL.format(wt=wt, tried=tried))
    print(name, pid, 'ok')
