#!/usr/bin/env python3
"""Build /verif/vendor-std: /verif/vendor plus the crates the nightly standard library needs, so that
`cargo +nightly build -Zbuild-std` (needed by ThreadSanitizer) resolves offline together with the
repository's own dependencies.  Crates of std's Cargo.lock that the local registries hold are hard
linked; the ones that exist only for other targets (wasi, hermit, sgx, windows, ...) and are absent
get an empty stub with the lock's checksum -- they are never compiled on x86_64-unknown-linux-gnu,
cargo only needs them to exist to accept the lock file.  Offline, idempotent."""
import glob, json, os, re, shutil, subprocess, sys

def parse_lock(path):
    pk, cur = [], None
    for line in open(path):
        line = line.rstrip("\n")
        if line == "[[package]]":
            cur = {"deps": []}
            pk.append(cur)
        elif cur is not None:
            m = re.match(r'^(name|version|source|checksum) = "(.*)"$', line)
            if m:
                cur[m.group(1)] = m.group(2)
    return pk

def main():
    out = sys.argv[1] if len(sys.argv) > 1 else "/verif/vendor-std"
    base = "/verif/vendor"
    r = subprocess.run(["rustc", "+nightly", "--print", "sysroot"], stdout=subprocess.PIPE, text=True)
    lock = os.path.join(r.stdout.strip(), "lib/rustlib/src/rust/library/Cargo.lock")
    if not os.path.exists(lock):
        print("mkvendor_std: rust-src not found", file=sys.stderr); return 2
    stamp = os.path.join(out, ".stamp")
    want = open(lock).read() + "\n" + (open(os.path.join(base, ".stamp")).read() if os.path.exists(os.path.join(base, ".stamp")) else "")
    if os.path.exists(stamp) and open(stamp).read() == want:
        return 0
    if os.path.exists(out):
        shutil.rmtree(out)
    os.makedirs(out)
    for n in sorted(os.listdir(base)):
        s = os.path.join(base, n)
        if os.path.isdir(s):
            subprocess.run(["cp", "-al", s, os.path.join(out, n)], check=True)
    home = os.path.expanduser("~/.cargo/registry/src")
    linked = stubs = 0
    # features that std's own crates (and the std dependencies found locally) ask of each dependency
    import tomllib
    asked = {}
    def scan(manifest):
        try:
            t = tomllib.load(open(manifest, "rb"))
        except Exception:
            return
        tables = [t.get("dependencies", {}), t.get("build-dependencies", {})]
        for tt in (t.get("target", {}) or {}).values():
            tables.append(tt.get("dependencies", {}))
        for tab in tables:
            for k, v in tab.items():
                if isinstance(v, dict):
                    name = v.get("package", k)
                    asked.setdefault(name, set()).update(v.get("features", []))
    libdir = os.path.dirname(lock)
    for m in glob.glob(os.path.join(libdir, "*", "Cargo.toml")) + glob.glob(os.path.join(libdir, "*", "*", "Cargo.toml")):
        scan(m)
    for p in parse_lock(lock):
        for f in glob.glob(os.path.join(home, "*", "%s-%s" % (p.get("name"), p.get("version")), "Cargo.toml")):
            scan(f)
    for p in parse_lock(lock):
        if not p.get("source", "").startswith("registry+"):
            continue
        nv = "%s-%s" % (p["name"], p["version"])
        d = os.path.join(out, nv)
        if os.path.exists(d):
            # same crate already vendored for the repository: keep, but the checksum must be the lock's
            pass
        else:
            found = glob.glob(os.path.join(home, "*", nv))
            if found:
                subprocess.run(["cp", "-al", found[0], d], check=True)
                linked += 1
            else:
                os.makedirs(os.path.join(d, "src"))
                feats = sorted(asked.get(p["name"], set()) | {"rustc-dep-of-std", "default"})
                open(os.path.join(d, "Cargo.toml"), "w").write('[package]\nname = "%s"\nversion = "%s"\nedition = "2021"\n\n[features]\n%s' % (p["name"], p["version"], "".join('"%s" = []\n' % f for f in feats)))
                open(os.path.join(d, "src", "lib.rs"), "w").write("")
                stubs += 1
        ck = os.path.join(d, ".cargo-checksum.json")
        if os.path.exists(ck):
            os.unlink(ck)
        json.dump({"files": {}, "package": p.get("checksum")}, open(ck, "w"))
    open(stamp, "w").write(want)
    print("mkvendor_std: %d std crates linked, %d stubs -> %s" % (linked, stubs, out))
    return 0

if __name__ == "__main__":
    sys.exit(main())
