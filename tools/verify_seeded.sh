#!/bin/bash
# Confirms every agent-provided seeded change in one scratch worktree: demo passes on the clean tree,
# fails with the change, and the pinned suite still passes with the change. Writes verify.json next
# to each patch. usage: verify_seeded.sh [names...]
set -u
WT=/tmp/vs-seeded
cd /repo
git worktree remove --force $WT 2>/dev/null
git worktree add -q --detach $WT HEAD || exit 1
cd $WT
names="$@"
[ -z "$names" ] && names=$(cd /verif/seeded && ls -d agent-* | tr '\n' ' ')
for n in $names; do
  d=/verif/seeded/$n
  [ -f $d/patch.diff ] || continue
  git checkout -q -- . ; git clean -fdq
  demos=$(ls $d/*.rs 2>/dev/null)
  # which crate hosts the demo (from the agent's run_demo.sh)
  pkg="fastrace@0.7.9"; tdir=fastrace/tests
  grep -q -- "-p fastrace-jaeger" $d/run_demo.sh 2>/dev/null && { pkg=fastrace-jaeger; tdir=fastrace-jaeger/tests; }
  grep -q -- "-p fastrace-futures" $d/run_demo.sh 2>/dev/null && { pkg=fastrace-futures; tdir=fastrace-futures/tests; }
  grep -q -- "-p test-statically-disable" $d/run_demo.sh 2>/dev/null && { pkg=test-statically-disable; tdir=test-statically-disable/tests; }
  grep -q -- "-p fastrace-datadog" $d/run_demo.sh 2>/dev/null && { pkg=fastrace-datadog; tdir=fastrace-datadog/tests; }
  grep -q -- "fastrace-opentelemetry" $d/run_demo.sh 2>/dev/null && { pkg=fastrace-opentelemetry; tdir=fastrace-opentelemetry/tests; }
  if [ -f $d/demo.diff ] && grep -q "test-statically-disable" $d/demo.diff; then
    # the demonstration is a change to the statically-disabled test binary, run with cargo run
    git apply $d/demo.diff
    t0=$(date +%s)
    timeout 900 cargo run -q -p test-statically-disable --offline > $d/verify_clean.log 2>&1; rc_clean=$?
    git apply $d/patch.diff || { echo "$n: patch does not apply"; continue; }
    timeout 900 cargo run -q -p test-statically-disable --offline > $d/verify_mutant.log 2>&1; rc_mut=$?
    git apply -R $d/demo.diff
    timeout 1500 cargo nextest run --workspace --no-fail-fast --offline --test-threads 8 > $d/verify_suite.log 2>&1; rc_suite=$?
    passed=$(grep -o "[0-9]* passed" $d/verify_suite.log | tail -1)
    echo "{\"demo_on_clean_tree_rc\": $rc_clean, \"demo_with_change_rc\": $rc_mut, \"suite_with_change_rc\": $rc_suite, \"suite\": \"$passed\", \"seconds\": $(( $(date +%s) - t0 ))}" > $d/verify.json
    echo "$n: clean=$rc_clean mutant=$rc_mut suite=$rc_suite ($passed)"
    tail -c 1500 $d/verify_mutant.log > $d/verify_mutant.tail; rm -f $d/verify_mutant.log $d/verify_clean.log; tail -5 $d/verify_suite.log > $d/verify_suite.tail; rm -f $d/verify_suite.log
    continue
  fi
  mkdir -p $tdir
  for f in $demos; do cp $f $tdir/; done
  [ -f $d/demo_cargo.diff ] && git apply $d/demo_cargo.diff
  feat=""
  grep -v "^ *#" $d/run_demo.sh 2>/dev/null | grep -q "features enable,verif" && feat="--features enable,verif"
  f2=$(grep -v "^ *#" $d/run_demo.sh 2>/dev/null | grep -o -- "--features [A-Za-z0-9_/,-]*" | head -1)
  [ -n "$f2" ] && feat="$f2"
  grep -q -- "--release" $d/run_demo.sh 2>/dev/null && feat="$feat --release"
  # only the main demo decides; auxiliary tests (e.g. seeded_simple) may pass either way
  main="--test seeded_demo"
  t0=$(date +%s)
  timeout 900 cargo test -p $pkg --offline $feat $main > $d/verify_clean.log 2>&1; rc_clean=$?
  git apply $d/patch.diff || { echo "$n: patch does not apply"; continue; }
  timeout 900 cargo test -p $pkg --offline $feat $main > $d/verify_mutant.log 2>&1; rc_mut=$?
  rm -f $tdir/seeded_*.rs; [ -f $d/demo_cargo.diff ] && git apply -R $d/demo_cargo.diff
  timeout 1500 cargo nextest run --workspace --no-fail-fast --offline --test-threads 8 > $d/verify_suite.log 2>&1; rc_suite=$?
  passed=$(grep -o "[0-9]* passed" $d/verify_suite.log | tail -1)
  echo "{\"demo_on_clean_tree_rc\": $rc_clean, \"demo_with_change_rc\": $rc_mut, \"suite_with_change_rc\": $rc_suite, \"suite\": \"$passed\", \"seconds\": $(( $(date +%s) - t0 ))}" > $d/verify.json
  echo "$n: clean=$rc_clean mutant=$rc_mut suite=$rc_suite ($passed)"
  tail -c 1500 $d/verify_mutant.log > $d/verify_mutant.tail; rm -f $d/verify_mutant.log $d/verify_clean.log; tail -5 $d/verify_suite.log > $d/verify_suite.tail; rm -f $d/verify_suite.log
done
cd /repo; git worktree remove --force $WT
