"""Sanitizer supplements (thorough tier): AddressSanitizer builds of the harness binaries and Miri runs
of a tiny multi-threaded span program. A sanitizer report is a violation; a build problem is
inconclusive."""
import json, os, subprocess, time

ASAN_DIR = "/verif/harness/target-asan"
ASAN_BIN = os.path.join(ASAN_DIR, "x86_64-unknown-linux-gnu", "debug")


def _run(cmd, cwd=None, env=None, timeout=1800):
    try:
        r = subprocess.run(cmd, cwd=cwd, env=env, stdout=subprocess.PIPE, stderr=subprocess.STDOUT, text=True, timeout=timeout)
        return r.returncode, r.stdout
    except subprocess.TimeoutExpired as e:
        return "timeout", (e.stdout or b"").decode(errors="replace") if isinstance(e.stdout, bytes) else (e.stdout or "")


def asan(core, work, seed, jobs):
    """jobs: list of (label, binary, args, json out or None)"""
    out = {"runs": [], "reports": 0}
    viol, inc = [], []
    env = dict(core.ENV, RUSTFLAGS="-Zsanitizer=address -Cforce-frame-pointers=yes")
    rc, log = _run(["cargo", "+nightly", "build", "-q", "-p", "hx", "--bins", "--target", "x86_64-unknown-linux-gnu", "--target-dir", ASAN_DIR], cwd=core.HARNESS, env=env)
    if rc != 0:
        inc.append("AddressSanitizer build failed: " + log[-300:].replace("\n", " | "))
        return out, viol, inc
    renv = dict(core.ENV, ASAN_OPTIONS="detect_leaks=0:halt_on_error=1:abort_on_error=0:exitcode=77")
    for label, binary, args, jout in jobs:
        o = os.path.join(work, "asan-%s.json" % label) if jout else None
        argv = [os.path.join(ASAN_BIN, binary)] + args + (["--out", o] if o else [])
        t0 = time.time()
        rc, log = _run(argv, env=renv, timeout=900)
        entry = {"run": label, "status": rc, "wall_s": round(time.time() - t0, 1)}
        if "AddressSanitizer" in log or rc == 77:
            out["reports"] += 1
            rp = os.path.join(core.REPLAYS, "asan-%s.log" % label)
            os.makedirs(core.REPLAYS, exist_ok=True)
            open(rp, "w").write(log[-20000:])
            first = [l for l in log.splitlines() if "ERROR: AddressSanitizer" in l][:1]
            viol.append({"category": "Sanitizer", "signature": "asan-report", "detail": "AddressSanitizer report in %s: %s" % (label, (first or [log[-200:]])[0][:300]), "replay": rp})
        elif rc == "timeout":
            inc.append("ASan run %s timed out" % label)
        elif o and os.path.exists(o):
            try:
                d = json.load(open(o))
                entry["executions"] = d.get("executions")
                entry["records"] = d.get("records_checked")
                for v in d.get("violations", [])[:3]:
                    v = dict(v)
                    v["detail"] = "[ASan build] " + v.get("detail", "")
                    viol.append(v)
            except Exception:
                pass
        out["runs"].append(entry)
    return out, viol, inc


TSAN_DIR = "/verif/harness/target-tsan"
TSAN_BIN = os.path.join(TSAN_DIR, "x86_64-unknown-linux-gnu", "debug")


def tsan(core, work, seed, jobs):
    """ThreadSanitizer: needs an instrumented standard library (-Zbuild-std); tools/mkvendor_std.py
    makes the directory source that lets cargo resolve std's dependencies offline.
    jobs: list of (label, binary, args, json out or None)"""
    out = {"runs": [], "reports": 0}
    viol, inc = [], []
    r = subprocess.run(["python3", os.path.join(core.VERIF, "tools", "mkvendor_std.py")], stdout=subprocess.PIPE, stderr=subprocess.STDOUT, text=True)
    if r.returncode != 0:
        inc.append("ThreadSanitizer: vendor-std could not be made: " + r.stdout[-200:].replace("\n", " | "))
        return out, viol, inc
    env = dict(core.ENV, RUSTFLAGS="-Zsanitizer=thread")
    rc, log = _run(["cargo", "+nightly", "build", "-q", "-Zbuild-std", "-p", "hx", "--bin", "stress", "--bin", "hostile", "--bin", "progsim",
                    "--target", "x86_64-unknown-linux-gnu", "--target-dir", TSAN_DIR,
                    "--config", 'source.vendored.directory="/verif/vendor-std"'], cwd=core.HARNESS, env=env)
    if rc != 0:
        inc.append("ThreadSanitizer build failed: " + log[-300:].replace("\n", " | "))
        return out, viol, inc
    renv = dict(core.ENV, TSAN_OPTIONS="halt_on_error=1:exitcode=66:second_deadlock_stack=1:history_size=4")
    for label, binary, args, jout in jobs:
        o = os.path.join(work, "tsan-%s.json" % label) if jout else None
        argv = [os.path.join(TSAN_BIN, binary)] + args + (["--out", o] if o else [])
        t0 = time.time()
        rc, log = _run(argv, env=renv, timeout=900)
        entry = {"run": label, "status": rc, "wall_s": round(time.time() - t0, 1)}
        if "WARNING: ThreadSanitizer" in log or rc == 66:
            out["reports"] += 1
            rp = os.path.join(core.REPLAYS, "tsan-%s.log" % label)
            os.makedirs(core.REPLAYS, exist_ok=True)
            open(rp, "w").write(log[-30000:])
            first = [l for l in log.splitlines() if "WARNING: ThreadSanitizer" in l][:1]
            # the first frame inside the repository or the harness, for the reader
            frames = [l.strip() for l in log.splitlines() if "/repo/" in l or "/verif/harness/" in l][:2]
            viol.append({"category": "Sanitizer", "signature": "tsan-report", "detail": "ThreadSanitizer report in %s: %s %s" % (label, (first or [log[-200:]])[0][:200], " | ".join(frames)[:300]), "replay": rp})
        elif rc == "timeout":
            inc.append("TSan run %s timed out" % label)
        elif o and os.path.exists(o):
            try:
                d = json.load(open(o))
                entry["executions"] = d.get("executions")
                entry["records"] = d.get("records_checked")
                for v in d.get("violations", [])[:3]:
                    v = dict(v)
                    v["detail"] = "[TSan build] " + v.get("detail", "")
                    viol.append(v)
            except Exception:
                pass
        out["runs"].append(entry)
    return out, viol, inc


def miri(core, work, seeds=(1, 2, 3, 4), many="0..16"):
    out = {"runs": [], "reports": 0}
    viol, inc = [], []
    d = os.path.join(core.VERIF, "harness-miri")
    env = dict(core.ENV, MIRIFLAGS="-Zmiri-disable-isolation -Zmiri-ignore-leaks -Zmiri-many-seeds=%s" % many)
    for s in seeds:
        t0 = time.time()
        rc, log = _run(["cargo", "+nightly", "miri", "run", "-q", "--", str(s)], cwd=d, env=env, timeout=1800)
        oks = log.count("ok seed=")
        entry = {"program_seed": s, "schedules": many, "status": rc, "completed_schedules": oks, "wall_s": round(time.time() - t0, 1)}
        out["runs"].append(entry)
        if "Undefined Behavior" in log or "error: unsupported operation" in log and "cpuid" not in log or "Data race" in log or "MIRI-ORACLE" in log:
            out["reports"] += 1
            rp = os.path.join(core.REPLAYS, "miri-seed%d.log" % s)
            os.makedirs(core.REPLAYS, exist_ok=True)
            open(rp, "w").write(log[-20000:])
            first = [l for l in log.splitlines() if "error" in l or "MIRI-ORACLE" in l][:1]
            viol.append({"category": "Sanitizer", "signature": "miri-report", "detail": "Miri report for program seed %d: %s" % (s, (first or [""])[0][:300]), "replay": rp})
        elif rc != 0 and oks == 0:
            inc.append("Miri run (seed %d) did not complete: %s" % (s, log[-300:].replace("\n", " | ")))
    return out, viol, inc
