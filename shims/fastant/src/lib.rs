// Copyright 2021 TiKV Project Authors. Licensed under Apache-2.0.

//! A drop-in replacement for [`std::time::Instant`](https://doc.rust-lang.org/std/time/struct.Instant.html)
//! that measures time with high performance and high accuracy powered by [Time Stamp Counter (TSC)](https://en.wikipedia.org/wiki/Time_Stamp_Counter).
//!
//! ## Example
//!
//! ```rust
//! let start = fastant::Instant::now();
//! let duration: std::time::Duration = start.elapsed();
//! ```
//!
//! ## Platform Support
//!
//! Currently, only the Linux on `x86` or `x86_64` is backed by Time Stamp Counter (TSC).
//! On other platforms, `fastant` falls back to coarse time.
//!
//! ## Calibration
//!
//! Time Stamp Counter (TSC) doesn't necessarily tick in constant speed and even doesn't synchronize
//! across CPU cores. The calibration detects the TSC deviation and calculates the correction
//! factors with the assistance of a source wall clock. Once the deviation is beyond a crazy
//! threshold, the calibration will fail, and then we will fall back to coarse time.
//!
//! This calibration is stored globally and reused. In order to start the calibration before any
//! call to `fastant` as to make sure that the time spent on `fastant` is constant, we link the
//! calibration into application's initialization linker section, so it'll get executed once the
//! process starts.
//!
//! **[See also the `Instant` type](Instant).**

#![cfg_attr(docsrs, feature(doc_cfg))]

mod instant;
#[cfg(all(not(miri), target_os = "linux", any(target_arch = "x86", target_arch = "x86_64")))]
mod tsc_now;

pub use instant::Anchor;
#[cfg(all(feature = "atomic", target_has_atomic = "64"))]
#[cfg_attr(docsrs, doc(cfg(all(feature = "atomic", target_has_atomic = "64"))))]
pub use instant::Atomic;
pub use instant::Instant;

/// Return `true` if the current platform supports Time Stamp Counter (TSC),
/// and the calibration has succeeded.
///
/// The result is always the same during the lifetime of the application process.
#[inline]
pub fn is_tsc_available() -> bool {
    #[cfg(all(not(miri), target_os = "linux", any(target_arch = "x86", target_arch = "x86_64")))]
    {
        tsc_now::is_tsc_available()
    }
    #[cfg(not(all(not(miri), target_os = "linux", any(target_arch = "x86", target_arch = "x86_64"))))]
    {
        false
    }
}

#[inline]
pub(crate) fn current_cycle() -> u64 {
    #[cfg(all(not(miri), target_os = "linux", any(target_arch = "x86", target_arch = "x86_64")))]
    {
        if tsc_now::is_tsc_available() {
            tsc_now::current_cycle()
        } else {
            current_cycle_fallback()
        }
    }
    #[cfg(not(all(not(miri), target_os = "linux", any(target_arch = "x86", target_arch = "x86_64"))))]
    {
        current_cycle_fallback()
    }
}

#[cfg(not(feature = "fallback-coarse"))]
pub(crate) fn current_cycle_fallback() -> u64 {
    web_time::SystemTime::now()
        .duration_since(web_time::UNIX_EPOCH)
        .map(|d| d.as_nanos() as u64)
        .unwrap_or(0)
}

#[cfg(feature = "fallback-coarse")]
pub(crate) fn current_cycle_fallback() -> u64 {
    let coarse = coarsetime::Instant::now_without_cache_update();
    coarsetime::Duration::from_ticks(coarse.as_ticks()).as_nanos()
}

#[inline]
pub(crate) fn nanos_per_cycle() -> f64 {
    #[cfg(all(not(miri), target_os = "linux", any(target_arch = "x86", target_arch = "x86_64")))]
    {
        tsc_now::nanos_per_cycle()
    }
    #[cfg(not(all(not(miri), target_os = "linux", any(target_arch = "x86", target_arch = "x86_64"))))]
    {
        1.0
    }
}

#[cfg(test)]
mod tests {
    use std::time::Duration;
    use std::time::Instant as StdInstant;

    use rand::Rng;
    use wasm_bindgen_test::wasm_bindgen_test;

    use super::*;

    #[test]
    #[wasm_bindgen_test]
    fn test_is_tsc_available() {
        let _ = is_tsc_available();
    }

    #[test]
    #[wasm_bindgen_test]
    fn test_monotonic() {
        let mut prev = 0;
        for _ in 0..10000 {
            let cur = current_cycle();
            assert!(cur >= prev);
            prev = cur;
        }
    }

    #[test]
    #[wasm_bindgen_test]
    fn test_nanos_per_cycle() {
        let _ = nanos_per_cycle();
    }

    #[test]
    #[wasm_bindgen_test]
    fn test_unix_time() {
        let now = Instant::now();
        let anchor = Anchor::new();
        let unix_nanos = now.as_unix_nanos(&anchor);
        assert!(unix_nanos > 0);
    }

    #[test]
    fn test_duration() {
        let mut rng = rand::rng();
        for _ in 0..10 {
            let instant = Instant::now();
            let std_instant = StdInstant::now();
            std::thread::sleep(Duration::from_millis(rng.random_range(100..500)));
            let check = move || {
                let duration_ns_fastant = instant.elapsed();
                let duration_ns_std = std_instant.elapsed();

                #[cfg(target_os = "windows")]
                let expect_max_delta_ns = 40_000_000;
                #[cfg(not(target_os = "windows"))]
                let expect_max_delta_ns = 5_000_000;

                let real_delta = (duration_ns_std.as_nanos() as i128
                    - duration_ns_fastant.as_nanos() as i128)
                    .abs();
                assert!(
                    real_delta < expect_max_delta_ns,
                    "real delta: {}",
                    real_delta
                );
            };
            check();
            std::thread::spawn(check)
                .join()
                .expect("failed to join thread");
        }
    }
}
