// Copyright 2021 TiKV Project Authors. Licensed under Apache-2.0.

//! This module will be compiled when it's either linux_x86 or linux_x86_64.

use std::cell::UnsafeCell;
use std::fs::read_to_string;
use std::io::ErrorKind;
use std::time::Instant;

static TSC_STATE: TSCState = TSCState {
    is_tsc_available: UnsafeCell::new(false),
    tsc_level: UnsafeCell::new(TSCLevel::Unstable),
    nanos_per_cycle: UnsafeCell::new(1.0),
};

struct TSCState {
    is_tsc_available: UnsafeCell<bool>,
    tsc_level: UnsafeCell<TSCLevel>,
    nanos_per_cycle: UnsafeCell<f64>,
}

unsafe impl Sync for TSCState {}

#[small_ctor::ctor]
unsafe fn init() {
    let tsc_level = TSCLevel::get();
    let is_tsc_available = match &tsc_level {
        TSCLevel::Stable { .. } => true,
        TSCLevel::Unstable => false,
    };
    if is_tsc_available {
        *TSC_STATE.nanos_per_cycle.get() = 1_000_000_000.0 / tsc_level.cycles_per_second() as f64;
    }
    *TSC_STATE.is_tsc_available.get() = is_tsc_available;
    *TSC_STATE.tsc_level.get() = tsc_level;
    std::sync::atomic::fence(std::sync::atomic::Ordering::SeqCst);
}

#[inline]
pub(crate) fn is_tsc_available() -> bool {
    unsafe { *TSC_STATE.is_tsc_available.get() }
}

#[inline]
pub(crate) fn nanos_per_cycle() -> f64 {
    unsafe { *TSC_STATE.nanos_per_cycle.get() }
}

#[inline]
pub(crate) fn current_cycle() -> u64 {
    match unsafe { &*TSC_STATE.tsc_level.get() } {
        TSCLevel::Stable {
            cycles_from_anchor, ..
        } => tsc().wrapping_sub(*cycles_from_anchor),
        TSCLevel::Unstable => panic!("tsc is unstable"),
    }
}

enum TSCLevel {
    Stable {
        cycles_per_second: u64,
        cycles_from_anchor: u64,
    },
    Unstable,
}

impl TSCLevel {
    fn get() -> TSCLevel {
        if !is_tsc_stable() {
            return TSCLevel::Unstable;
        }

        let anchor = Instant::now();
        let (cps, cfa) = cycles_per_sec(anchor);
        TSCLevel::Stable {
            cycles_per_second: cps,
            cycles_from_anchor: cfa,
        }
    }

    #[inline]
    fn cycles_per_second(&self) -> u64 {
        match self {
            TSCLevel::Stable {
                cycles_per_second, ..
            } => *cycles_per_second,
            TSCLevel::Unstable => panic!("tsc is unstable"),
        }
    }
}

/// If linux kernel detected TSCs are sync between CPUs, we can
/// rely on the result to say tsc is stable so that no need to
/// sync TSCs by ourselves.
fn is_tsc_stable() -> bool {
    has_invariant_tsc() || clock_source_has_tsc()
}

fn clock_source_has_tsc() -> bool {
    #[cfg(target_os = "linux")]
    {
        const CURRENT_CLOCKSOURCE: &str =
            "/sys/devices/system/clocksource/clocksource0/current_clocksource";
        const AVAILABLE_CLOCKSOURCE: &str =
            "/sys/devices/system/clocksource/clocksource0/available_clocksource";

        match read_to_string(CURRENT_CLOCKSOURCE) {
            Ok(content) => content.contains("tsc"),
            Err(e) if e.kind() == ErrorKind::NotFound => {
                // we only check `available_clocksource` iff `current_clocksource` not exists.
                read_to_string(AVAILABLE_CLOCKSOURCE)
                    .map(|s| s.contains("tsc"))
                    .unwrap_or(false)
            }
            Err(_) => false,
        }
    }

    #[cfg(not(target_os = "linux"))]
    false
}

/// Invariant TSC could make sure TSC got synced among multi CPUs.
/// They will be reset at same time, and run in same frequency.
/// But in some VM, the max Extended Function in CPUID is < 0x80000007,
/// we should enable TSC if the system clock source is TSC.
#[inline]
fn has_invariant_tsc() -> bool {
    #[cfg(any(target_arch = "x86", target_arch = "x86_64"))]
    unsafe {
        use core::arch::x86_64::__cpuid;
        let cpuid_invariant_tsc_bts = 1 << 8;
        __cpuid(0x80000000).eax >= 0x80000007
            && __cpuid(0x80000007).edx & cpuid_invariant_tsc_bts != 0
    }

    #[cfg(not(any(target_arch = "x86", target_arch = "x86_64")))]
    false
}

/// Returns (1) cycles per second and (2) cycles from anchor.
/// The result of subtracting `cycles_from_anchor` from newly fetched TSC
/// can be used to
///   1. readjust TSC to begin from zero
///   2. sync TSCs between all CPUs
fn cycles_per_sec(anchor: Instant) -> (u64, u64) {
    let (cps, last_monotonic, last_tsc) = _cycles_per_sec();
    let nanos_from_anchor = (last_monotonic - anchor).as_nanos();
    let cycles_flied = cps as f64 * nanos_from_anchor as f64 / 1_000_000_000.0;
    let cycles_from_anchor = last_tsc - cycles_flied.ceil() as u64;

    (cps, cycles_from_anchor)
}

/// Returns (1) cycles per second, (2) last monotonic time and (3) associated tsc.
fn _cycles_per_sec() -> (u64, Instant, u64) {
    let mut cycles_per_sec;
    let mut last_monotonic;
    let mut last_tsc;
    let mut old_cycles = 0.0;

    loop {
        let (t1, tsc1) = monotonic_with_tsc();
        loop {
            let (t2, tsc2) = monotonic_with_tsc();
            last_monotonic = t2;
            last_tsc = tsc2;
            let elapsed_nanos = (t2 - t1).as_nanos();
            if elapsed_nanos > 10_000_000 {
                cycles_per_sec = (tsc2 - tsc1) as f64 * 1_000_000_000.0 / elapsed_nanos as f64;
                break;
            }
        }
        let delta = f64::abs(cycles_per_sec - old_cycles);
        if delta / cycles_per_sec < 0.00001 {
            break;
        }
        old_cycles = cycles_per_sec;
    }

    (cycles_per_sec.round() as u64, last_monotonic, last_tsc)
}

/// Try to get tsc and monotonic time at the same time. Due to
/// get interrupted in half way may happen, they aren't guaranteed
/// to represent the same instant.
fn monotonic_with_tsc() -> (Instant, u64) {
    (Instant::now(), tsc())
}

#[inline]
fn tsc() -> u64 {
    #[cfg(target_arch = "x86")]
    use core::arch::x86::_rdtsc;
    #[cfg(target_arch = "x86_64")]
    use core::arch::x86_64::_rdtsc;

    unsafe { _rdtsc() }
}
