// Copyright 2021 TiKV Project Authors. Licensed under Apache-2.0.

use std::ops::Add;
use std::ops::AddAssign;
use std::ops::Sub;
use std::ops::SubAssign;
use std::time::Duration;

use web_time::SystemTime;
use web_time::UNIX_EPOCH;

/// A measurement of a monotonically non-decreasing clock. Similar to
/// [`std::time::Instant`](std::time::Instant) but is faster and more
/// accurate if TSC is available.
#[derive(Copy, Clone, PartialEq, Eq, PartialOrd, Ord, Hash)]
#[repr(transparent)]
pub struct Instant(u64);

impl Instant {
    /// A default `Instant` that can be seen as a fixed but random moment.
    pub const ZERO: Instant = Instant(0);

    #[inline]
    /// Returns an instant corresponding to "now".
    ///
    /// # Examples
    ///
    /// ```rust
    /// use fastant::Instant;
    /// let now = Instant::now();
    /// ```
    pub fn now() -> Instant {
        Instant(crate::current_cycle())
    }

    /// Returns the amount of time elapsed from another instant to this one,
    /// or zero duration if that instant is later than this one.
    ///
    /// # Examples
    ///
    /// ```
    /// use std::thread::sleep;
    /// use std::time::Duration;
    ///
    /// use fastant::Instant;
    ///
    /// let now = Instant::now();
    /// sleep(Duration::new(1, 0));
    ///
    /// let new_now = Instant::now();
    /// println!("{:?}", new_now.duration_since(now));
    /// println!("{:?}", now.duration_since(new_now)); // 0ns
    /// ```
    pub fn duration_since(&self, earlier: Instant) -> Duration {
        self.checked_duration_since(earlier).unwrap_or_default()
    }

    /// Returns the amount of time elapsed from another instant to this one,
    /// or None if that instant is later than this one.
    ///
    /// # Examples
    ///
    /// ```
    /// use std::thread::sleep;
    /// use std::time::Duration;
    ///
    /// use fastant::Instant;
    ///
    /// let now = Instant::now();
    /// sleep(Duration::new(1, 0));
    ///
    /// let new_now = Instant::now();
    /// println!("{:?}", new_now.checked_duration_since(now));
    /// println!("{:?}", now.checked_duration_since(new_now)); // None
    /// ```
    pub fn checked_duration_since(&self, earlier: Instant) -> Option<Duration> {
        Some(Duration::from_nanos(
            (self.0.checked_sub(earlier.0)? as f64 * crate::nanos_per_cycle()) as u64,
        ))
    }

    /// Returns the amount of time elapsed from another instant to this one,
    /// or zero duration if that instant is later than this one.
    ///
    /// # Examples
    ///
    /// ```
    /// use std::thread::sleep;
    /// use std::time::Duration;
    ///
    /// use fastant::Instant;
    ///
    /// let now = Instant::now();
    /// sleep(Duration::new(1, 0));
    ///
    /// let new_now = Instant::now();
    /// println!("{:?}", new_now.saturating_duration_since(now));
    /// println!("{:?}", now.saturating_duration_since(new_now)); // 0ns
    /// ```
    pub fn saturating_duration_since(&self, earlier: Instant) -> Duration {
        self.checked_duration_since(earlier).unwrap_or_default()
    }

    /// Returns the amount of time elapsed since this instant was created.
    ///
    /// # Examples
    ///
    /// ```
    /// use std::thread::sleep;
    /// use std::time::Duration;
    ///
    /// use fastant::Instant;
    ///
    /// let instant = Instant::now();
    /// let three_secs = Duration::from_secs(3);
    /// sleep(three_secs);
    /// assert!(instant.elapsed() >= three_secs);
    /// ```
    #[inline]
    pub fn elapsed(&self) -> Duration {
        Instant::now() - *self
    }

    /// Returns `Some(t)` where `t` is the time `self + duration` if `t` can be represented as
    /// `Instant` (which means it's inside the bounds of the underlying data structure), `None`
    /// otherwise.
    pub fn checked_add(&self, duration: Duration) -> Option<Instant> {
        self.0
            .checked_add((duration.as_nanos() as u64 as f64 / crate::nanos_per_cycle()) as u64)
            .map(Instant)
    }

    /// Returns `Some(t)` where `t` is the time `self - duration` if `t` can be represented as
    /// `Instant` (which means it's inside the bounds of the underlying data structure), `None`
    /// otherwise.
    pub fn checked_sub(&self, duration: Duration) -> Option<Instant> {
        self.0
            .checked_sub((duration.as_nanos() as u64 as f64 / crate::nanos_per_cycle()) as u64)
            .map(Instant)
    }

    /// Convert internal clocking counter into a UNIX timestamp represented as the
    /// nanoseconds elapsed from [UNIX_EPOCH](UNIX_EPOCH).
    ///
    /// [`Anchor`](Anchor) contains the necessary calibration data for conversion.
    /// Typically, initializing an [`Anchor`](Anchor) takes about 50 nanoseconds, so
    /// try to reuse it for a batch of `Instant`.
    ///
    /// # Examples
    ///
    /// ```
    /// use std::time::UNIX_EPOCH;
    ///
    /// use fastant::Anchor;
    /// use fastant::Instant;
    ///
    /// let anchor = Anchor::new();
    /// let instant = Instant::now();
    ///
    /// let expected = UNIX_EPOCH.elapsed().unwrap().as_nanos();
    /// assert!((instant.as_unix_nanos(&anchor) as i64 - expected as i64).abs() < 1_000_000);
    /// ```
    pub fn as_unix_nanos(&self, anchor: &Anchor) -> u64 {
        if self.0 > anchor.cycle {
            let forward_ns = ((self.0 - anchor.cycle) as f64 * crate::nanos_per_cycle()) as u64;
            anchor.unix_time_ns + forward_ns
        } else {
            let backward_ns = ((anchor.cycle - self.0) as f64 * crate::nanos_per_cycle()) as u64;
            anchor.unix_time_ns - backward_ns
        }
    }
}

impl Add<Duration> for Instant {
    type Output = Instant;

    fn add(self, other: Duration) -> Instant {
        self.checked_add(other)
            .expect("overflow when adding duration to instant")
    }
}

impl AddAssign<Duration> for Instant {
    fn add_assign(&mut self, other: Duration) {
        *self = *self + other;
    }
}

impl Sub<Duration> for Instant {
    type Output = Instant;

    fn sub(self, other: Duration) -> Instant {
        self.checked_sub(other)
            .expect("overflow when subtracting duration from instant")
    }
}

impl SubAssign<Duration> for Instant {
    fn sub_assign(&mut self, other: Duration) {
        *self = *self - other;
    }
}

impl Sub<Instant> for Instant {
    type Output = Duration;

    /// Returns the amount of time elapsed from another instant to this one,
    /// or zero duration if that instant is later than this one.
    fn sub(self, other: Instant) -> Duration {
        self.duration_since(other)
    }
}

impl std::fmt::Debug for Instant {
    fn fmt(&self, f: &mut std::fmt::Formatter<'_>) -> std::fmt::Result {
        self.0.fmt(f)
    }
}

/// An anchor which can be used to convert internal clocking counter into system timestamp.
///
/// **[See also the `Instant::as_unix_nanos()`](Instant::as_unix_nanos).**
#[derive(Copy, Clone)]
pub struct Anchor {
    unix_time_ns: u64,
    cycle: u64,
}

impl Default for Anchor {
    fn default() -> Self {
        Self::new()
    }
}

impl Anchor {
    #[inline]
    pub fn new() -> Anchor {
        let unix_time_ns = SystemTime::now()
            .duration_since(UNIX_EPOCH)
            .expect("unexpected time drift")
            .as_nanos() as u64;
        Anchor {
            unix_time_ns,
            cycle: crate::current_cycle(),
        }
    }
}

#[cfg(all(feature = "atomic", target_has_atomic = "64"))]
#[cfg_attr(docsrs, doc(cfg(all(feature = "atomic", target_has_atomic = "64"))))]
mod atomic {
    use std::sync::atomic::AtomicU64;
    use std::sync::atomic::Ordering;

    use super::Instant;

    /// Atomic variant of [`Instant`].
    #[derive(Debug)]
    #[repr(transparent)]
    pub struct Atomic(AtomicU64);

    impl Atomic {
        /// Maximum with the current value.
        ///
        /// Finds the maximum of the current value and the argument `val`, and
        /// sets the new value to the result.
        ///
        /// Returns the previous value.
        ///
        /// `fetch_max` takes an [`Ordering`] argument which describes the memory ordering
        /// of this operation. All ordering modes are possible. Note that using
        /// [`Acquire`] makes the store part of this operation [`Relaxed`], and
        /// using [`Release`] makes the load part [`Relaxed`].
        ///
        /// **Note**: This method is only available on platforms that support atomic operations on
        /// `[u64]`.
        #[inline]
        pub fn fetch_max(&self, val: Instant, order: Ordering) -> Instant {
            Instant(self.0.fetch_max(val.0, order))
        }

        /// Minimum with the current value.
        ///
        /// Finds the minimum of the current value and the argument `val`, and
        /// sets the new value to the result.
        ///
        /// Returns the previous value.
        ///
        /// `fetch_min` takes an [`Ordering`] argument which describes the memory ordering
        /// of this operation. All ordering modes are possible. Note that using
        /// [`Acquire`] makes the store part of this operation [`Relaxed`], and
        /// using [`Release`] makes the load part [`Relaxed`].
        ///
        /// **Note**: This method is only available on platforms that support atomic operations on
        /// `[u64]`.
        #[inline]
        pub fn fetch_min(&self, val: Instant, order: Ordering) -> Instant {
            Instant(self.0.fetch_min(val.0, order))
        }

        /// Consumes the atomic and returns the contained [`Instant`].
        ///
        /// This is safe because passing `self` by value guarantees that no other threads are
        /// concurrently accessing the atomic data.
        #[inline]
        pub fn into_instant(self) -> Instant {
            Instant(self.0.into_inner())
        }

        /// Loads a value from the [`Atomic`].
        ///
        /// `load` takes an [`Ordering`] argument which describes the memory ordering of this
        /// operation. Possible values are [`SeqCst`], [`Acquire`] and [`Relaxed`].
        ///
        /// # Panics
        ///
        /// Panics if `order` is [`Release`] or [`AcqRel`].
        #[inline]
        pub fn load(&self, order: Ordering) -> Instant {
            Instant(self.0.load(order))
        }

        /// Creates a new [`Atomic`].
        #[inline]
        pub fn new(v: Instant) -> Self {
            Self(AtomicU64::new(v.0))
        }

        /// Stores a value into the [`Atomic`].
        ///
        /// `store` takes an [`Ordering`] argument which describes the memory ordering of this
        /// operation.  Possible values are [`SeqCst`], [`Release`] and [`Relaxed`].
        ///
        /// # Panics
        ///
        /// Panics if `order` is [`Acquire`] or [`AcqRel`].
        #[inline]
        pub fn store(&self, val: Instant, order: Ordering) {
            self.0.store(val.0, order)
        }

        /// Stores a value into the [`Atomic`], returning the previous value.
        ///
        /// `swap` takes an [`Ordering`] argument which describes the memory ordering
        /// of this operation. All ordering modes are possible. Note that using
        /// [`Acquire`] makes the store part of this operation [`Relaxed`], and
        /// using [`Release`] makes the load part [`Relaxed`].
        ///
        /// **Note**: This method is only available on platforms that support atomic operations on
        /// `u64`
        #[inline]
        pub fn swap(&self, val: Instant, order: Ordering) -> Instant {
            Instant(self.0.swap(val.0, order))
        }
    }

    impl From<Instant> for Atomic {
        #[inline]
        fn from(instant: Instant) -> Self {
            Self::new(instant)
        }
    }
}

#[cfg(all(feature = "atomic", target_has_atomic = "64"))]
#[cfg_attr(docsrs, doc(cfg(all(feature = "atomic", target_has_atomic = "64"))))]
pub use atomic::Atomic;
