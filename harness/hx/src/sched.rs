//! Scheduler: runs a program (a totally ordered list of per-thread operations) on the engine and
//! decides, through a `Chooser`, where collector cycles (atomic, flush(), or stepped through the
//! collector's instrumentation points) are placed: between operations and between the queue
//! operations of one operation.

use std::sync::atomic::Ordering;
use std::sync::Arc;

use fastrace::verif::Stats;

use crate::exec::*;
use crate::model::Model;
use crate::ops::*;
use crate::rng::Rng;

pub struct Program {
    pub id: u64,
    pub nthreads: usize,
    pub ops: Vec<(usize, Op)>,
    pub flat_base: Vec<usize>,
    pub model: Model,
    pub str_mode: u8,
    /// (flat, flat) pairs of current_local_parent probes taken before a scope was opened and after
    /// it was closed on the same thread
    pub frame_pairs: Vec<(usize, usize)>,
    /// ranges [a, b) of top-level op indices during which no collector action is placed (the
    /// collector is held back, e.g. to keep a command ring full)
    pub no_cycle: Vec<(usize, usize)>,
    /// top-level op indices before which two whole collector cycles are forced
    pub drain_points: Vec<usize>,
}

impl Program {
    pub fn new(id: u64, nthreads: usize, cancelable: bool, str_mode: u8, auto_local_base: u32) -> Program {
        Program {
            id,
            nthreads,
            ops: vec![],
            flat_base: vec![],
            model: Model::new(nthreads, cancelable, auto_local_base),
            str_mode,
            frame_pairs: vec![],
            no_cycle: vec![],
            drain_points: vec![],
        }
    }

    pub fn push(&mut self, t: usize, op: Op) -> usize {
        let base = self.model.apply(t, &op);
        self.flat_base.push(base);
        self.ops.push((t, op));
        base
    }

    /// number of commands the model expects top-level op i to send
    pub fn sends_of(&self, i: usize) -> usize {
        let b = self.flat_base[i];
        let e = b + flat_len(&self.ops[i].1);
        self.model.ops[b..e].iter().map(|o| o.sends.len()).sum()
    }

    pub fn top_of_flat(&self, flat: usize) -> usize {
        match self.flat_base.binary_search(&flat) {
            Ok(i) => i,
            Err(i) => i - 1,
        }
    }
}

#[derive(Clone, Copy, Debug, PartialEq, Eq)]
pub enum SchedMode {
    /// whole cycles only
    Placed,
    /// the collector is advanced from one instrumentation point to the next
    Stepped,
}

#[derive(Clone, Copy, Debug, PartialEq, Eq)]
#[repr(u8)]
pub enum Tag {
    BeforeOp = 0,
    ParkOp = 1,
    AtSend = 2,
    Step = 3,
    Final = 4,
}

pub trait Chooser {
    fn choose(&mut self, tag: Tag, n: usize) -> usize;
}

pub struct RandomChooser {
    pub rng: Rng,
    /// probabilities in 1/1000
    pub p_cycle: u32,
    pub p_flush: u32,
    pub p_park: u32,
    pub p_at_send: u32,
    pub p_step: u32,
    pub p_final_flush: u32,
}

impl RandomChooser {
    pub fn new(rng: Rng) -> Self {
        RandomChooser { rng, p_cycle: 150, p_flush: 20, p_park: 300, p_at_send: 500, p_step: 450, p_final_flush: 300 }
    }
}

impl Chooser for RandomChooser {
    fn choose(&mut self, tag: Tag, n: usize) -> usize {
        let r = (self.rng.next() % 1000) as u32;
        match tag {
            Tag::BeforeOp | Tag::AtSend => {
                let pc = if tag == Tag::AtSend { self.p_at_send } else { self.p_cycle };
                if r < pc {
                    1
                } else if n > 2 && r < pc + self.p_flush {
                    2
                } else {
                    0
                }
            }
            Tag::ParkOp => (r < self.p_park) as usize,
            Tag::Step => (r < self.p_step) as usize,
            Tag::Final => (r < self.p_final_flush) as usize,
        }
    }
}

/// Replays a recorded decision list (then takes option 0) and records what it was asked.
pub struct ScriptChooser {
    pub script: Vec<u8>,
    pub pos: usize,
    pub asked: Vec<(u8, u8, u8)>,
}

impl ScriptChooser {
    pub fn new(script: Vec<u8>) -> Self {
        ScriptChooser { script, pos: 0, asked: vec![] }
    }
}

impl Chooser for ScriptChooser {
    fn choose(&mut self, tag: Tag, n: usize) -> usize {
        let c = if self.pos < self.script.len() { self.script[self.pos] as usize } else { 0 };
        let c = c.min(n - 1);
        self.pos += 1;
        self.asked.push((tag as u8, n as u8, c as u8));
        c
    }
}

/// Wraps a chooser and records the decisions (for replay files).
pub struct Recording<'a> {
    pub inner: &'a mut dyn Chooser,
    pub log: Vec<(u8, u8, u8)>,
}

impl<'a> Chooser for Recording<'a> {
    fn choose(&mut self, tag: Tag, n: usize) -> usize {
        let c = self.inner.choose(tag, n);
        self.log.push((tag as u8, n as u8, c as u8));
        c
    }
}

#[derive(Clone, Copy, Debug, Default)]
pub struct PosInfo {
    /// index of the top-level op in progress or about to run (ops.len() after the last one)
    pub top: usize,
    /// true while that op is parked at a Send
    pub in_op: bool,
    /// number of Sends of that op already let through
    pub sends_done: usize,
    /// a worker thread is being spawned (its warm-up command is not part of the program)
    pub warmup: bool,
}

#[derive(Clone, Debug, Default)]
pub struct RunOpts {
    pub max_cycles: usize,
    pub max_steps: usize,
    /// park at sends in stepped mode too
    pub park_in_stepped: bool,
    /// never call flush()
    pub no_flush: bool,
    /// collector points a stepped cycle parks at (0 = all)
    pub cyield: u64,
    /// workers also park before each command replayed from the overflow list
    pub park_replay: bool,
    /// retire all worker OS threads first, so that the threads (and their queue order) are fresh
    pub fresh_threads: bool,
}

pub struct Execution {
    pub reports: Vec<ReportCall>,
    pub results: Vec<OpResult>,
    pub hooks: Vec<HookEv>,
    pub pos: Vec<PosInfo>,
    pub decisions: Vec<(u8, u8, u8)>,
    pub stats: Stats,
    pub final_flush: bool,
    pub cycles: usize,
    pub steps: usize,
    /// worker operations (or send resumptions) executed while a collector cycle was open
    pub mid_cycle_ops: usize,
    pub sys_start: u64,
    pub sys_end: u64,
    pub workers_alive: usize,
}

struct Runner<'a> {
    eng: &'a mut Engine,
    mode: SchedMode,
    opts: RunOpts,
    pos: Vec<PosInfo>,
    cycles: usize,
    steps: usize,
    mid_cycle_ops: usize,
    held: Vec<(usize, usize)>,
}

impl<'a> Runner<'a> {
    fn mark(&mut self, p: PosInfo) {
        self.pos.push(p);
        POS.store(self.pos.len() as u64 - 1, Ordering::SeqCst);
    }

    /// Spawn the OS thread of logical thread t and consume its warm-up command with a cycle of
    /// its own, so that it does not take part in the program's cycles.
    fn spawn(&mut self, t: usize, p: PosInfo) -> Result<(), EngineError> {
        self.mark(p);
        self.eng.cycle_finish()?;
        self.mark(PosInfo { warmup: true, ..p });
        self.eng.ensure_worker(t)?;
        self.mark(p);
        self.eng.cycle_atomic()?;
        take_reports_keep_nonempty();
        Ok(())
    }

    fn collector_actions(&mut self, ch: &mut dyn Chooser, tag: Tag, p: PosInfo) -> Result<(), EngineError> {
        if self.held.iter().any(|(a, b)| p.top >= *a && p.top < *b) {
            return Ok(());
        }
        match self.mode {
            SchedMode::Placed => {
                let n = if self.opts.no_flush { 2 } else { 3 };
                match ch.choose(tag, n) {
                    1 => {
                        self.mark(p);
                        self.cycles += 1;
                        self.eng.cycle_atomic()?;
                    }
                    2 => {
                        self.mark(p);
                        self.cycles += 1;
                        self.eng.flush_from_main();
                    }
                    _ => {}
                }
            }
            SchedMode::Stepped => loop {
                let mid = self.eng.collector_mid_cycle();
                if !mid && self.cycles >= self.opts.max_cycles {
                    break;
                }
                if self.steps >= self.opts.max_steps {
                    break;
                }
                if ch.choose(Tag::Step, 2) == 0 {
                    break;
                }
                self.mark(p);
                if !mid {
                    self.cycles += 1;
                }
                self.steps += 1;
                self.eng.cycle_step()?;
            },
        }
        Ok(())
    }
}

pub fn run_program(
    eng: &mut Engine,
    prog: &Program,
    mode: SchedMode,
    chooser: &mut dyn Chooser,
    opts: RunOpts,
) -> Result<Execution, EngineError> {
    set_str_mode(prog.str_mode);
    CYIELD.store(if opts.cyield == 0 { u64::MAX } else { opts.cyield }, Ordering::SeqCst);
    PARK_REPLAY.store(opts.park_replay, Ordering::SeqCst);
    if opts.fresh_threads {
        eng.cycle_finish()?;
        eng.retire_workers()?;
        eng.cycle_atomic()?;
        eng.cycle_atomic()?;
    }
    take_reports();
    take_hooklog();
    take_results();
    let mut rec = Recording { inner: chooser, log: vec![] };
    let mut r = Runner { eng, mode, opts: opts.clone(), pos: vec![], cycles: 0, steps: 0, mid_cycle_ops: 0, held: prog.no_cycle.clone() };
    let sys_start = sys_ns();
    r.mark(PosInfo::default());
    // all threads the program uses exist before it starts
    for t in 0..prog.nthreads {
        if !r.eng.is_alive(t) && prog.ops.iter().any(|(ot, _)| *ot == t) {
            r.spawn(t, PosInfo::default())?;
        }
    }
    take_hooklog();
    for (i, (t, op)) in prog.ops.iter().enumerate() {
        let p = PosInfo { top: i, in_op: false, sends_done: 0, warmup: false };
        if prog.drain_points.contains(&i) {
            r.mark(p);
            r.eng.cycle_finish()?;
            r.eng.cycle_atomic()?;
            r.mark(p);
            r.eng.cycle_atomic()?;
            r.cycles += 2;
        }
        r.collector_actions(&mut rec, Tag::BeforeOp, p)?;
        if matches!(op, Op::SetReporter) && r.eng.collector_mid_cycle() {
            // set_reporter takes the collector's lock: it can only run between cycles
            r.mark(p);
            r.eng.cycle_finish()?;
        }
        if !r.eng.is_alive(*t) {
            if matches!(op, Op::Exit) {
                continue;
            }
            r.spawn(*t, p)?;
        }
        let nsends = prog.sends_of(i);
        let may_park = mode == SchedMode::Placed || opts.park_in_stepped;
        let park = if nsends > 0 && may_park && rec.choose(Tag::ParkOp, 2) == 1 { u64::MAX } else { 0 };
        r.mark(p);
        if r.eng.collector_mid_cycle() {
            r.mid_cycle_ops += 1;
        }
        let top = Arc::new(TopOp { op: op.clone(), flat_base: prog.flat_base[i] });
        let mut st = r.eng.run_op(*t, Some(top), park)?;
        while let WState::ParkedSend(k) = st {
            let p = PosInfo { top: i, in_op: true, sends_done: k, warmup: false };
            r.collector_actions(&mut rec, Tag::AtSend, p)?;
            r.mark(p);
            if r.eng.collector_mid_cycle() {
                r.mid_cycle_ops += 1;
            }
            st = r.eng.run_op(*t, None, park)?;
        }
    }
    let pend = PosInfo { top: prog.ops.len(), in_op: false, sends_done: 0, warmup: false };
    r.mark(pend);
    r.eng.cycle_finish()?;
    let final_flush = !opts.no_flush && rec.choose(Tag::Final, 2) == 1;
    r.mark(pend);
    if final_flush {
        r.eng.flush_from_main();
        // what the last cycle held back for one more cycle is decided by the next one
        r.mark(pend);
        r.eng.cycle_atomic()?;
    } else {
        r.eng.cycle_atomic()?;
        r.mark(pend);
        r.eng.cycle_atomic()?;
    }
    let stats = fastrace::verif::collector_stats();
    let sys_end = sys_ns();
    let workers_alive = r.eng.live_workers();
    let (pos, cycles, steps, mid) = (r.pos, r.cycles, r.steps, r.mid_cycle_ops);
    Ok(Execution {
        reports: take_reports(),
        results: take_results(),
        hooks: take_hooklog(),
        pos,
        decisions: rec.log,
        stats,
        final_flush,
        cycles,
        steps,
        mid_cycle_ops: mid,
        sys_start,
        sys_end,
        workers_alive,
    })
}

/// The warm-up cycle must not deliver anything; if it does, keep the call so the oracles see it.
fn take_reports_keep_nonempty() {
    let mut g = REPORTS.lock().unwrap_or_else(|e| e.into_inner());
    g.retain(|c| !c.records.is_empty());
}
