//! C07 (and the limit clauses of C09): hostile scenarios, one per process. The parent decides from
//! the exit status: 0 + `"ok":true` = every call returned normally; a caught panic is reported in
//! the JSON; an abort (signal) or a hang is seen by the parent.

use std::panic::{catch_unwind, AssertUnwindSafe};
use std::sync::atomic::{AtomicUsize, Ordering};
use std::sync::{Arc, Mutex};
use std::time::{Duration, Instant};

use fastrace::collector::{Config, Reporter, SpanContext, SpanId, SpanRecord, TraceId};
use fastrace::local::LocalCollector;
use fastrace::prelude::*;
use serde_json::json;

static CALLS: AtomicUsize = AtomicUsize::new(0);

/// Bytes currently allocated by the whole process: the "retained state" oracle that does not depend
/// on which container of the library holds on to something.
struct Counting;
static LIVE_BYTES: std::sync::atomic::AtomicIsize = std::sync::atomic::AtomicIsize::new(0);
unsafe impl std::alloc::GlobalAlloc for Counting {
    unsafe fn alloc(&self, l: std::alloc::Layout) -> *mut u8 {
        LIVE_BYTES.fetch_add(l.size() as isize, Ordering::Relaxed);
        std::alloc::System.alloc(l)
    }
    unsafe fn dealloc(&self, p: *mut u8, l: std::alloc::Layout) {
        LIVE_BYTES.fetch_sub(l.size() as isize, Ordering::Relaxed);
        std::alloc::System.dealloc(p, l)
    }
    unsafe fn realloc(&self, p: *mut u8, l: std::alloc::Layout, n: usize) -> *mut u8 {
        LIVE_BYTES.fetch_add(n as isize - l.size() as isize, Ordering::Relaxed);
        std::alloc::System.realloc(p, l, n)
    }
}
#[global_allocator]
static ALLOC: Counting = Counting;

fn c() {
    CALLS.fetch_add(1, Ordering::Relaxed);
}

#[derive(Clone, Default)]
struct Rep(Arc<Mutex<Vec<SpanRecord>>>);
impl Reporter for Rep {
    fn report(&mut self, spans: Vec<SpanRecord>) {
        self.0.lock().unwrap().extend(spans);
    }
}

fn install(cancelable: bool) -> Rep {
    let r = Rep::default();
    fastrace::set_reporter(r.clone(), Config::default().cancelable(cancelable).report_interval(Duration::from_millis(5)));
    r
}

/// every kind of public call once, in whatever state the thread is in
fn workload(tag: &str, random_ctx: bool) {
    let ctx = if random_ctx { SpanContext::random() } else { SpanContext::new(TraceId(0x1234), SpanId(7)) };
    c();
    let root = Span::root(format!("{}-root", tag), ctx).with_property(|| ("k", "v"));
    c();
    let child = Span::enter_with_parent("child", &root);
    c();
    let multi = Span::enter_with_parents("multi", [&root, &child, &Span::noop()]);
    c();
    let none = Span::enter_with_parents("none", std::iter::empty::<&Span>());
    c();
    {
        let _g = root.set_local_parent();
        c();
        let _l = LocalSpan::enter_with_local_parent("local").with_property(|| ("a", "b"));
        c();
        LocalSpan::add_property(|| ("lp", "lv"));
        c();
        LocalSpan::add_event(Event::new("lev").with_property(|| ("x", "y")));
        c();
        let _ = SpanContext::current_local_parent();
        c();
        let s2 = Span::enter_with_local_parent("from-local");
        c();
        {
            let _g2 = none.set_local_parent();
            c();
            let _ = SpanContext::current_local_parent();
            c();
            let _l2 = LocalSpan::enter_with_local_parent("under-none");
            c();
            let _s3 = Span::enter_with_local_parent("span-under-none");
            c();
        }
        drop(s2);
        c();
    }
    let lc = LocalCollector::start();
    c();
    {
        let _l = LocalSpan::enter_with_local_parent("collected");
        c();
    }
    let set = lc.collect();
    c();
    let _ = set.to_span_records(SpanContext::new(TraceId(9), SpanId(9)));
    c();
    root.push_child_spans(set.clone());
    c();
    multi.push_child_spans(set);
    c();
    root.add_property(|| ("p", "q"));
    c();
    root.add_properties(|| [("p1", "q1"), ("p2", "q2")]);
    c();
    child.add_event(Event::new("ev"));
    c();
    let _ = SpanContext::from_span(&multi);
    c();
    let _ = SpanContext::from_span(&none);
    c();
    let _ = root.elapsed();
    c();
    child.cancel();
    c();
    let _ = SpanContext::new(TraceId(1), SpanId(2)).encode_w3c_traceparent();
    c();
    let _ = SpanContext::decode_w3c_traceparent("00-1-2-3");
    c();
    drop(none);
    drop(multi);
    drop(child);
    c();
    root.cancel();
    c();
    drop(root);
    c();
}

static LAZY: AtomicUsize = AtomicUsize::new(0);

fn lz() -> (&'static str, &'static str) {
    LAZY.fetch_add(1, Ordering::SeqCst);
    ("lazy", "closure")
}

/// Closures passed to spans that are not recording must not be invoked.
fn lazy_workload(tag: &str) {
    lazy_workload_ctx(tag, SpanContext::new(TraceId(0x77), SpanId(7)));
}

/// contexts / elapsed() that were `Some` although no span can be recording
static SOMES: AtomicUsize = AtomicUsize::new(0);

fn lazy_workload_ctx(tag: &str, ctx: SpanContext) {
    let root = Span::root(format!("{}-root", tag), ctx).with_property(lz);
    {
        let some = |b: bool| {
            if b {
                SOMES.fetch_add(1, Ordering::SeqCst);
            }
        };
        some(root.elapsed().is_some());
        some(SpanContext::from_span(&root).is_some());
        let _g = root.set_local_parent();
        some(SpanContext::current_local_parent().is_some());
        let c = Span::enter_with_local_parent("lazy-ctx-child").with_property(lz);
        some(c.elapsed().is_some());
        some(SpanContext::from_span(&c).is_some());
    }
    let child = Span::enter_with_parent("lazy-child", &root).with_property(lz).with_properties(|| [lz()]);
    let multi = Span::enter_with_parent("lazy-of-noop", &Span::noop()).with_property(lz);
    root.add_property(lz);
    child.add_properties(|| [lz(), lz()]);
    multi.add_property(lz);
    let local = LocalSpan::enter_with_local_parent("lazy-local").with_property(lz).with_properties(|| [lz()]);
    LocalSpan::add_property(lz);
    LocalSpan::add_properties(|| [lz()]);
    let from_local = Span::enter_with_local_parent("lazy-from-local").with_property(lz);
    {
        let _g = root.set_local_parent();
        let _l = LocalSpan::enter_with_local_parent("lazy-local-2").with_property(lz);
        LocalSpan::add_property(lz);
    }
    drop(local);
    drop(from_local);
    drop(multi);
    drop(child);
    drop(root);
}

struct Dtor {
    kind: u8,
}

impl Drop for Dtor {
    fn drop(&mut self) {
        match self.kind {
            0 => workload("dtor", false),
            1 => workload("dtor-random", true),
            2 => {
                let _ = TraceId::random();
                c();
                let _ = SpanId::random();
                c();
            }
            _ => {
                workload("dtor-flush", false);
                fastrace::flush();
                c();
            }
        }
    }
}

thread_local! {
    static USER: std::cell::RefCell<Option<Dtor>> = const { std::cell::RefCell::new(None) };
}

/// order: 'A' user TLS first, nothing else; 'B' fastrace first, then user TLS; 'C' user TLS first,
/// then fastrace; 'R' user TLS first, then only the `rand` crate's generator (through
/// TraceId::random), so that the thread's first span id is generated inside the destructor
fn tls_scenario(order: char, kind: u8) {
    let h = std::thread::spawn(move || {
        match order {
            'A' => USER.with(|u| *u.borrow_mut() = Some(Dtor { kind })),
            'B' => {
                workload("body", false);
                USER.with(|u| *u.borrow_mut() = Some(Dtor { kind }));
            }
            'C' => {
                USER.with(|u| *u.borrow_mut() = Some(Dtor { kind }));
                workload("body", true);
            }
            _ => {
                USER.with(|u| *u.borrow_mut() = Some(Dtor { kind }));
                let _ = TraceId::random();
            }
        }
    });
    let _ = h.join();
}

fn deep_scopes(n: usize) {
    let root = Span::root("deep", SpanContext::new(TraceId(77), SpanId(1)));
    let mut spans = vec![];
    let mut guards = vec![];
    for i in 0..n {
        let s = Span::enter_with_parent(format!("d{}", i), &root);
        c();
        guards.push(s.set_local_parent());
        c();
        spans.push(s);
        if i % 512 == 0 || i + 3 >= n {
            let _l = LocalSpan::enter_with_local_parent("in-deep");
            c();
            LocalSpan::add_event(Event::new("e"));
            c();
            let _ = SpanContext::current_local_parent();
            c();
            let _x = Span::enter_with_local_parent("x");
            c();
        }
    }
    let lc = LocalCollector::start();
    c();
    let _ = lc.collect();
    c();
    while let Some(g) = guards.pop() {
        drop(g);
        c();
    }
    drop(spans);
    drop(root);
}

fn wide_scope(n: usize) {
    let root = Span::root("wide", SpanContext::new(TraceId(78), SpanId(1)));
    let _g = root.set_local_parent();
    let mut open = vec![];
    for i in 0..n {
        let l = LocalSpan::enter_with_local_parent("w").with_property(|| ("i", "j"));
        c();
        if i % 1000 == 0 {
            open.push(l);
        }
    }
    for _ in 0..50 {
        LocalSpan::add_event(Event::new("late"));
        c();
        LocalSpan::add_property(|| ("late", "prop"));
        c();
        let _ = SpanContext::current_local_parent();
        c();
    }
    while let Some(l) = open.pop() {
        drop(l);
        c();
    }
}

/// Flood one thread's command ring while nothing drains it; every call must still return.
fn full_ring(cancelable: bool) -> (u128, usize) {
    // no reporter interval short enough to drain: install with a one-hour interval
    let r = Rep::default();
    fastrace::set_reporter(r.clone(), Config::default().cancelable(cancelable).report_interval(Duration::from_secs(3600)));
    std::thread::sleep(Duration::from_millis(50));
    let mut worst = 0u128;
    let mut calls = 0usize;
    let mut timed = |f: &mut dyn FnMut()| {
        let t = Instant::now();
        f();
        let d = t.elapsed().as_micros();
        if d > worst {
            worst = d;
        }
        calls += 1;
    };
    let root = Span::root("flood", SpanContext::new(TraceId(5), SpanId(1)));
    for _ in 0..25_000 {
        timed(&mut || root.add_event(Event::new("f")));
    }
    let mut roots = vec![];
    for i in 0..200u64 {
        timed(&mut || roots.push(Span::root("r", SpanContext::new(TraceId(100 + i as u128), SpanId(i)))));
    }
    for s in &roots {
        timed(&mut || s.cancel());
        timed(&mut || {
            let _g = s.set_local_parent();
            let _l = LocalSpan::enter_with_local_parent("l");
            LocalSpan::add_event(Event::new("e"));
        });
    }
    for s in roots.drain(..) {
        let mut s = Some(s);
        timed(&mut || drop(s.take()));
    }
    timed(&mut || workload("flooded", false));
    drop(root);
    (worst, calls)
}

fn main() {
    let v: Vec<String> = std::env::args().collect();
    let mut scenario = String::new();
    let mut out = "/dev/stdout".to_string();
    let mut i = 1;
    while i + 1 < v.len() {
        match v[i].as_str() {
            "--scenario" => scenario = v[i + 1].clone(),
            "--out" => out = v[i + 1].clone(),
            _ => {}
        }
        i += 2;
    }
    let t0 = Instant::now();
    let mut extra = json!({});
    let sc = scenario.clone();
    let r = catch_unwind(AssertUnwindSafe(|| match sc.as_str() {
        "pre-reporter" => {
            workload("pre", false);
            workload("pre-random", true);
            fastrace::flush();
            std::thread::spawn(|| workload("pre-thread", false)).join().unwrap();
            let rep = install(false);
            workload("post", false);
            fastrace::flush();
            extra = json!({"records_after_install": rep.0.lock().unwrap().len()});
        }
        "lazy-pre-reporter" => {
            // no reporter yet: every span is a no-op span
            lazy_workload("pre");
            std::thread::spawn(|| lazy_workload("pre-thread")).join().unwrap();
            // the same with contexts that are not sampled: still no reporter, still no-op spans
            lazy_workload_ctx("pre-unsampled", SpanContext::new(TraceId(0x78), SpanId(8)).sampled(false));
            if let Some(c) = SpanContext::decode_w3c_traceparent("00-000000000000000000000000000000aa-00000000000000bb-00") {
                lazy_workload_ctx("pre-decoded-unsampled", c);
                std::thread::spawn(move || lazy_workload_ctx("pre-thread-unsampled", c)).join().unwrap();
            }
            let pre = LAZY.load(Ordering::SeqCst);
            let somes = SOMES.load(Ordering::SeqCst);
            if somes != 0 {
                panic!("{} context / elapsed() results were Some before a reporter was installed (no span can be recording)", somes);
            }
            let rep = install(false);
            // local operations without a local parent, spans derived from no-op spans
            let noop = Span::noop();
            let d = Span::enter_with_parent("lazy-derived", &noop).with_property(lz);
            d.add_property(lz);
            let l = LocalSpan::enter_with_local_parent("lazy-no-scope").with_property(lz);
            LocalSpan::add_property(lz);
            drop(l);
            drop(d);
            let post = LAZY.load(Ordering::SeqCst);
            fastrace::flush();
            std::thread::sleep(Duration::from_millis(30));
            fastrace::flush();
            let delivered: Vec<String> = rep.0.lock().unwrap().iter().map(|r| r.name.to_string()).collect();
            extra = json!({"closures_before_reporter": pre, "closures_on_not_recording_spans": post - pre, "delivered": delivered.len()});
            if pre != 0 || post != 0 {
                panic!("{} property closures were invoked on spans that are not recording ({} before the reporter was installed)", post, pre);
            }
            if !delivered.is_empty() {
                panic!("spans that were not recording were delivered: {:?}", delivered);
            }
        }
        "slow-reporter-first-send" => {
            // while the reporter is busy inside report(), tracing calls of other threads, including
            // the first call of a fresh thread (which registers its queue), must not wait for it
            struct Slow(Arc<std::sync::atomic::AtomicBool>);
            impl Reporter for Slow {
                fn report(&mut self, spans: Vec<SpanRecord>) {
                    if !spans.is_empty() {
                        self.0.store(true, Ordering::SeqCst);
                        std::thread::sleep(Duration::from_millis(1500));
                        self.0.store(false, Ordering::SeqCst);
                    }
                }
            }
            let busy = Arc::new(std::sync::atomic::AtomicBool::new(false));
            fastrace::set_reporter(Slow(busy.clone()), Config::default().report_interval(Duration::from_millis(1)));
            // wall-clock latencies decide nothing on their own on a loaded machine: the measurement
            // is repeated, and only three slow rounds in a row count as "waited for the collector"
            let mut rounds: Vec<u64> = vec![];
            let mut still_busy = false;
            for attempt in 0..3u64 {
                {
                    let r = Span::root("trigger", SpanContext::new(TraceId(1 + attempt as u128), SpanId(1)));
                    drop(r);
                }
                let t = Instant::now();
                while !busy.load(Ordering::SeqCst) && t.elapsed() < Duration::from_secs(5) {
                    std::thread::sleep(Duration::from_millis(1));
                }
                if !busy.load(Ordering::SeqCst) {
                    panic!("the reporter was never called (harness)");
                }
                let mut worst = 0u128;
                for k in 0..4 {
                    let h = std::thread::spawn(move || {
                        let t = Instant::now();
                        workload(if k == 0 { "fresh" } else { "fresh-more" }, false);
                        t.elapsed().as_millis()
                    });
                    worst = worst.max(h.join().unwrap());
                }
                still_busy = busy.load(Ordering::SeqCst);
                rounds.push(worst as u64);
                if worst <= 700 {
                    break;
                }
                let t = Instant::now();
                while busy.load(Ordering::SeqCst) && t.elapsed() < Duration::from_secs(5) {
                    std::thread::sleep(Duration::from_millis(1));
                }
            }
            extra = json!({"worst_fresh_thread_workload_ms_per_round": rounds, "reporter_still_in_report": still_busy});
            if rounds.len() == 3 && rounds.iter().all(|w| *w > 700) {
                panic!("tracing calls of a fresh thread took {:?} ms in three rounds while the reporter was inside report(): they waited for the collector", rounds);
            }
        }
        "reporter-traces" => {
            // a reporter that itself uses the tracing API (e.g. through a fastrace-aware logger)
            struct Tracing(Arc<AtomicUsize>);
            impl Reporter for Tracing {
                fn report(&mut self, spans: Vec<SpanRecord>) {
                    let r = Span::root("inside-report", SpanContext::new(TraceId(0xabc), SpanId(1)));
                    let _g = r.set_local_parent();
                    let _l = LocalSpan::enter_with_local_parent("l");
                    LocalSpan::add_event(Event::new("e"));
                    r.add_property(|| ("n", "v"));
                    self.0.fetch_add(1, Ordering::SeqCst);
                    let _ = spans;
                }
            }
            let calls = Arc::new(AtomicUsize::new(0));
            fastrace::set_reporter(Tracing(calls.clone()), Config::default().report_interval(Duration::from_millis(2)));
            let t = Instant::now();
            while calls.load(Ordering::SeqCst) < 5 && t.elapsed() < Duration::from_secs(10) {
                workload("outer", false);
                std::thread::sleep(Duration::from_millis(2));
            }
            let n = calls.load(Ordering::SeqCst);
            extra = json!({"report_calls": n});
            if n < 5 {
                panic!("only {} report() calls completed in 10 s with a reporter that traces: the collector is stuck", n);
            }
            let (tx, rx) = std::sync::mpsc::channel();
            std::thread::spawn(move || {
                fastrace::flush();
                let _ = tx.send(());
            });
            if rx.recv_timeout(Duration::from_secs(10)).is_err() {
                panic!("flush() did not return within 10 s with a reporter that traces");
            }
        }
        "deep-scopes" => {
            let _r = install(false);
            deep_scopes(4200);
            fastrace::flush();
        }
        "deep-scopes-cancelable" => {
            let _r = install(true);
            deep_scopes(4200);
            fastrace::flush();
        }
        "wide-scope" => {
            let _r = install(false);
            wide_scope(10_400);
            fastrace::flush();
        }
        "shared-trace-id" | "shared-trace-id-cancelable" => {
            // several roots continue the SAME trace id (legal: the same remote context handed to
            // several entry points); a span over all of them, attachments made after creation by
            // every route, collector cycles at seeded places: every copy of the span (one per
            // root, told apart by its parent id) carries each attachment exactly once
            let rep = Rep::default();
            let cancelable = sc.ends_with("cancelable");
            fastrace::set_reporter(rep.clone(), Config::default().cancelable(cancelable).report_interval(Duration::from_secs(3600)));
            std::thread::sleep(Duration::from_millis(30));
            let mut rng = hx::rng::Rng::new(0x5eed_0001);
            let mut checked = 0usize;
            for round in 0..150u64 {
                let nroots = 2 + (rng.below(3)) as usize;
                let tid = TraceId(0x7000_0000_0000 + round as u128);
                let roots: Vec<Span> = (0..nroots).map(|i| Span::root(format!("root{}", i), SpanContext::new(tid, SpanId(100 + i as u64)))).collect();
                let root_ids: Vec<u64> = roots.iter().map(|r| SpanContext::from_span(r).map(|c| c.span_id.0).unwrap_or(0)).collect();
                let maybe_cycle = |rng: &mut hx::rng::Rng| {
                    if rng.chance(1, 3) {
                        fastrace::flush();
                    }
                };
                let m = Span::enter_with_parents("merged", roots.iter()).with_property(|| ("created", "yes"));
                let mut want_events: Vec<String> = vec![];
                let mut want_props: Vec<String> = vec!["created".into()];
                let steps = 1 + rng.below(5);
                for k in 0..steps {
                    maybe_cycle(&mut rng);
                    match rng.below(4) {
                        0 => {
                            let n = format!("ev{}", k);
                            m.add_event(Event::new(n.clone()));
                            want_events.push(n);
                        }
                        1 => {
                            let n = format!("p{}", k);
                            let n2 = n.clone();
                            m.add_property(move || (n2, "v".to_string()));
                            want_props.push(n);
                        }
                        2 => {
                            let _g = m.set_local_parent();
                            let n = format!("lev{}", k);
                            LocalSpan::add_event(Event::new(n.clone()));
                            want_events.push(n);
                        }
                        _ => {
                            let _g = m.set_local_parent();
                            let n = format!("lp{}", k);
                            let n2 = n.clone();
                            LocalSpan::add_property(move || (n2, "v".to_string()));
                            want_props.push(n);
                        }
                    }
                }
                maybe_cycle(&mut rng);
                drop(m);
                maybe_cycle(&mut rng);
                for r in roots {
                    drop(r);
                }
                fastrace::flush();
                fastrace::flush();
                let recs = std::mem::take(&mut *rep.0.lock().unwrap());
                for (i, rid) in root_ids.iter().enumerate() {
                    let copies: Vec<&SpanRecord> = recs.iter().filter(|r| r.name == "merged" && r.parent_id.0 == *rid && r.trace_id == tid).collect();
                    if copies.len() != 1 {
                        panic!("round {}: {} copies of the merged span under root {} (trace id shared by {} roots)", round, copies.len(), i, nroots);
                    }
                    let mut ev: Vec<String> = copies[0].events.iter().map(|e| e.name.to_string()).collect();
                    let mut pr: Vec<String> = copies[0].properties.iter().map(|(k, _)| k.to_string()).collect();
                    let (mut we, mut wp) = (want_events.clone(), want_props.clone());
                    ev.sort();
                    pr.sort();
                    we.sort();
                    wp.sort();
                    if ev != we || pr != wp {
                        panic!("round {}: the copy of the merged span under root {} of {} (all roots share one trace id) has events {:?} / properties {:?}, expected {:?} / {:?}", round, i, nroots, ev, pr, we, wp);
                    }
                    checked += 1;
                }
            }
            extra = json!({"rounds": 150, "copies_checked": checked});
        }
        "big-cycle-late-signal" | "big-cycle-late-signal-cancelable" => {
            // one collector cycle has to take in more than 8192 finish signals (three threads,
            // nobody's queue full), and while it runs, between its two drain passes, the root of
            // one more trace finishes: that signal is first seen in the second pass, is kept for
            // the next cycle, and must survive whatever the collector does with its buffers after
            // a burst
            use std::sync::mpsc::sync_channel;
            static ARMED: std::sync::atomic::AtomicBool = std::sync::atomic::AtomicBool::new(false);
            let cancelable = sc.ends_with("cancelable");
            let rep = Rep::default();
            fastrace::set_reporter(rep.clone(), Config::default().cancelable(cancelable).report_interval(Duration::from_secs(3600)));
            std::thread::sleep(Duration::from_millis(30));
            let (at_tx, at_rx) = sync_channel::<()>(1);
            let (go_tx, go_rx) = sync_channel::<()>(1);
            let go_rx = Mutex::new(go_rx);
            fastrace::verif::set_hook(Some(Arc::new(move |p: &fastrace::verif::Point| {
                if let fastrace::verif::Point::PassBegin { pass: 2 } = p {
                    if ARMED.swap(false, Ordering::SeqCst) {
                        let _ = at_tx.send(());
                        let _ = go_rx.lock().unwrap().recv_timeout(Duration::from_secs(20));
                    }
                }
            })));
            let mut rounds_ok = 0;
            for round in 0..2u128 {
                let hs: Vec<_> = (0..3u128)
                    .map(|w| {
                        std::thread::spawn(move || {
                            for k in 0..3_000u128 {
                                drop(Span::root("burst", SpanContext::new(TraceId(0x10_0000 + round * 0x1_0000 + w * 0x4000 + k), SpanId(1))));
                            }
                        })
                    })
                    .collect();
                for h in hs {
                    h.join().unwrap();
                }
                let victim = Span::root("victim", SpanContext::new(TraceId(0xf1c0 + round), SpanId(1)));
                c();
                drop(Span::enter_with_parent("victim-child", &victim));
                ARMED.store(true, Ordering::SeqCst);
                let cyc = std::thread::spawn(fastrace::verif::run_collector_cycle);
                let parked = at_rx.recv_timeout(Duration::from_secs(20)).is_ok();
                drop(victim);
                c();
                let _ = go_tx.send(());
                cyc.join().unwrap();
                if !parked {
                    panic!("harness: the cycle had no second drain pass although 9000 finish signals were queued");
                }
                for _ in 0..3 {
                    fastrace::verif::run_collector_cycle();
                }
                let recs = std::mem::take(&mut *rep.0.lock().unwrap());
                let burst = recs.iter().filter(|r| r.name == "burst").count();
                let mut names: Vec<&str> = recs.iter().filter(|r| r.trace_id.0 == 0xf1c0 + round).map(|r| &*r.name).collect();
                names.sort();
                if names != ["victim", "victim-child"] {
                    panic!("round {}: a trace whose root finished between the two drain passes of a cycle that took in 9000 finish signals was delivered as {:?} after three more cycles", round, names);
                }
                if burst != 9_000 {
                    panic!("round {}: {} of the 9000 traces of the burst were delivered (no queue was full)", round, burst);
                }
                rounds_ok += 1;
            }
            fastrace::verif::set_hook(None);
            let st = fastrace::verif::collector_stats();
            extra = json!({"rounds": rounds_ok, "finish_signals_in_the_big_cycle": 9_001, "active_collect_ids_afterwards": st.active_collect_ids.len()});
            if !st.active_collect_ids.is_empty() {
                panic!("{} traces are still active in the collector after everything finished and four cycles ran", st.active_collect_ids.len());
            }
        }
        "lone-late-send" => {
            // the background collector alone (no flush, no cycle driven by the harness): a thread's
            // last command is held up for a few report intervals right before it enters the queue
            // (after everything the sender does before the push), then nothing at all calls into
            // the library. The span must still be reported within a bounded number of intervals.
            use std::sync::atomic::AtomicU64;
            static DELAY_US: AtomicU64 = AtomicU64::new(0);
            static AT_PUSH: std::sync::atomic::AtomicBool = std::sync::atomic::AtomicBool::new(true);
            thread_local! { static MARKED: std::cell::Cell<bool> = const { std::cell::Cell::new(false) }; }
            let interval = Duration::from_millis(2);
            let rep = Rep::default();
            fastrace::set_reporter(rep.clone(), Config::default().report_interval(interval));
            fastrace::verif::set_hook(Some(Arc::new(|p: &fastrace::verif::Point| {
                let hit = match p {
                    fastrace::verif::Point::Push { .. } => AT_PUSH.load(Ordering::SeqCst),
                    fastrace::verif::Point::Send { .. } => !AT_PUSH.load(Ordering::SeqCst),
                    _ => false,
                };
                if hit && MARKED.with(|m| m.replace(false)) {
                    std::thread::sleep(Duration::from_micros(DELAY_US.load(Ordering::SeqCst)));
                }
            })));
            std::thread::sleep(Duration::from_millis(20));
            let mut rng = hx::rng::Rng::new(0x10e5_e4d);
            let mut worst_intervals = 0u64;
            for round in 0..36u64 {
                let name = format!("late-{}", round);
                DELAY_US.store(500 + rng.below(9000) as u64, Ordering::SeqCst);
                AT_PUSH.store(rng.chance(2, 3), Ordering::SeqCst);
                let n2 = name.clone();
                let which = rng.below(3);
                std::thread::spawn(move || {
                    let root = Span::root(n2, SpanContext::new(TraceId(0x9000 + round as u128), SpanId(1)));
                    let child = Span::enter_with_parent("late-child", &root);
                    match which {
                        // the delayed command is the child's span set, the root's span set, or (with
                        // both already in) whatever the root's finish sends first
                        0 => {
                            MARKED.with(|m| m.set(true));
                            drop(child);
                            drop(root);
                        }
                        _ => {
                            drop(child);
                            MARKED.with(|m| m.set(true));
                            drop(root);
                        }
                    }
                })
                .join()
                .unwrap();
                // silence: nothing calls into the library; only the background collector runs
                let t = Instant::now();
                // generous: a lost wake-up never recovers, a loaded machine does
                let limit = Duration::from_secs(4);
                loop {
                    if rep.0.lock().unwrap().iter().any(|r| r.name == name) {
                        break;
                    }
                    if t.elapsed() > limit {
                        panic!("round {}: {:?} was not reported within {:?} (report interval 2 ms) after its thread finished it and exited, with no further call into the library", round, name, limit);
                    }
                    std::thread::sleep(Duration::from_micros(300));
                }
                worst_intervals = worst_intervals.max((t.elapsed().as_micros() / interval.as_micros()) as u64);
            }
            fastrace::verif::set_hook(None);
            extra = json!({"rounds": 36, "worst_wait_in_report_intervals": worst_intervals});
        }
        "many-busy-queues-cancelable" => {
            // between two collector cycles ten threads queue 10000 commands each (no queue is ever
            // full); a child of the watched trace finishes on a thread registered after all of
            // them, then its root finishes: the trace must come out whole however much the
            // collector has to drain first
            let rep = Rep::default();
            fastrace::set_reporter(rep.clone(), Config::default().cancelable(true).report_interval(Duration::from_secs(3600)));
            std::thread::sleep(Duration::from_millis(30));
            let mut whole = 0;
            for round in 0..3u128 {
                let root = Span::root("watched-root", SpanContext::new(TraceId(0xa000 + round), SpanId(1)));
                let hs: Vec<_> = (0..10u128)
                    .map(|w| {
                        std::thread::spawn(move || {
                            let r = Span::root("busy", SpanContext::new(TraceId(0xb000 + round * 100 + w), SpanId(1)));
                            for _ in 0..4_990 {
                                // two commands each: nothing near the 10240 slots of one queue
                                r.add_event(Event::new("x"));
                                r.add_event(Event::new("y"));
                            }
                            drop(r);
                        })
                    })
                    .collect();
                for h in hs {
                    h.join().unwrap();
                }
                let child = Span::enter_with_parent("watched-child", &root);
                std::thread::spawn(move || drop(child)).join().unwrap();
                drop(root);
                for _ in 0..4 {
                    fastrace::flush();
                }
                let recs = std::mem::take(&mut *rep.0.lock().unwrap());
                let mut names: Vec<&str> = recs.iter().filter(|r| r.trace_id.0 == 0xa000 + round).map(|r| &*r.name).collect();
                names.sort();
                if names != ["watched-child", "watched-root"] {
                    panic!("round {}: the watched trace was delivered as {:?} after ten other threads had queued 100000 commands in the same interval", round, names);
                }
                whole += 1;
            }
            extra = json!({"rounds": 3, "traces_delivered_whole": whole, "commands_queued_by_other_threads_per_round": 100_000});
        }
        "many-busy-queues-cancel-cancelable" => {
            // eight threads queue 10000 commands each between two cycles (no queue is full, 80000
            // commands in all); the last of them cancels the watched root, which the main thread
            // then finishes: nothing of it may be delivered, however much one cycle has to take in
            let rep = Rep::default();
            fastrace::set_reporter(rep.clone(), Config::default().cancelable(true).report_interval(Duration::from_secs(3600)));
            std::thread::sleep(Duration::from_millis(30));
            let mut suppressed = 0;
            for round in 0..3u128 {
                let root = Arc::new(Span::root("watched-root", SpanContext::new(TraceId(0xa100 + round), SpanId(1))));
                drop(Span::enter_with_parent("watched-child", &root));
                let hs: Vec<_> = (0..8u128)
                    .map(|w| {
                        let root = root.clone();
                        std::thread::spawn(move || {
                            let r = Span::root("busy", SpanContext::new(TraceId(0xb100 + round * 100 + w), SpanId(1)));
                            for _ in 0..5_000 {
                                r.add_event(Event::new("x"));
                                r.add_event(Event::new("y"));
                            }
                            if w == 7 {
                                root.cancel();
                                c();
                            }
                            drop(r);
                        })
                    })
                    .collect();
                for h in hs {
                    h.join().unwrap();
                }
                let root = Arc::try_unwrap(root).ok().expect("all workers are gone");
                drop(root);
                for _ in 0..4 {
                    fastrace::flush();
                }
                let recs = std::mem::take(&mut *rep.0.lock().unwrap());
                let leaked: Vec<&str> = recs.iter().filter(|r| r.trace_id.0 == 0xa100 + round).map(|r| &*r.name).collect();
                let busy = recs.iter().filter(|r| r.name == "busy").count();
                if !leaked.is_empty() {
                    panic!("round {}: records of a trace cancelled on another thread were delivered after eight threads had queued 80000 commands in the same interval: {:?}", round, leaked);
                }
                if busy != 8 {
                    panic!("round {}: {} of the 8 other traces were delivered", round, busy);
                }
                suppressed += 1;
            }
            extra = json!({"rounds": 3, "cancelled_traces_suppressed": suppressed, "commands_queued_by_other_threads_per_round": 80_000});
        }
        "many-busy-queues-flush" => {
            // eight threads finish 10000 children each of one open root (80000 commands, no queue
            // full, no root finishing): one flush() called afterwards delivers all of them
            let rep = Rep::default();
            fastrace::set_reporter(rep.clone(), Config::default().report_interval(Duration::from_secs(3600)));
            std::thread::sleep(Duration::from_millis(30));
            let root = Arc::new(Span::root("open-root", SpanContext::new(TraceId(0xa200), SpanId(1))));
            let hs: Vec<_> = (0..8)
                .map(|_| {
                    let root = root.clone();
                    std::thread::spawn(move || {
                        for _ in 0..10_000 {
                            drop(Span::enter_with_parent("child", &root));
                        }
                    })
                })
                .collect();
            for h in hs {
                h.join().unwrap();
            }
            fastrace::flush();
            c();
            let after_one = rep.0.lock().unwrap().iter().filter(|r| r.name == "child").count();
            drop(Arc::try_unwrap(root).ok().expect("workers are gone"));
            fastrace::flush();
            let total = rep.0.lock().unwrap().len();
            extra = json!({"children_finished_before_flush": 80_000, "delivered_when_flush_returned": after_one, "records_in_the_end": total});
            if after_one != 80_000 {
                panic!("{} of 80000 spans that had finished before flush() was called were delivered when it returned (eight queues of 10000 commands each, none full)", after_one);
            }
            if total != 80_001 {
                panic!("{} records in the end, expected 80001", total);
            }
        }
        "nested-scope-capacity" => {
            // 10000 local spans in a scope, then a nested scope (another span set as local parent)
            // with 500 more: each scope has its own limit of 10240 records
            let rep = install(false);
            let root = Span::root("root", SpanContext::new(TraceId(0xa300), SpanId(1)));
            {
                let _g = root.set_local_parent();
                for _ in 0..10_000 {
                    let _l = LocalSpan::enter_with_local_parent("outer-item");
                }
                let child = Span::enter_with_local_parent("nested");
                {
                    let _g2 = child.set_local_parent();
                    for _ in 0..500 {
                        let _l = LocalSpan::enter_with_local_parent("inner-item");
                    }
                    let lc = fastrace::local::LocalCollector::start();
                    for _ in 0..300 {
                        let _l = LocalSpan::enter_with_local_parent("collected-item");
                    }
                    child.push_child_spans(lc.collect());
                    c();
                }
            }
            drop(root);
            fastrace::flush();
            let recs = rep.0.lock().unwrap();
            let count = |n: &str| recs.iter().filter(|r| r.name == n).count();
            let got = (count("outer-item"), count("inner-item"), count("collected-item"));
            extra = json!({"outer": got.0, "inner": got.1, "collected": got.2});
            if got != (10_000, 500, 300) {
                panic!("10000 local spans in a scope, 500 in a scope nested in it, 300 in a collector nested in that: delivered {:?} (no scope reached its limit of 10240)", got);
            }
        }
        "many-threads-span-ids" => {
            // 66000 short-lived threads create one span each: span ids of different threads must
            // not repeat. Ids are (random 32-bit thread prefix, counter), so a handful of chance
            // collisions is expected at this scale (n^2 / 2^33, about 0.5 here); a prefix scheme that
            // wraps or repeats produces hundreds. The verdict is a count threshold.
            let rep = install(false);
            let root = Arc::new(Span::root("server", SpanContext::new(TraceId(0xc001), SpanId(1))));
            let n = 66_000usize;
            let mut ids: Vec<u64> = Vec::with_capacity(n);
            let mut batch = vec![];
            for i in 0..n {
                let root = root.clone();
                batch.push(std::thread::spawn(move || {
                    let s = Span::enter_with_parent("request", &root);
                    SpanContext::from_span(&s).map(|c| c.span_id.0).unwrap_or(0)
                }));
                if batch.len() == 64 || i + 1 == n {
                    for h in batch.drain(..) {
                        ids.push(h.join().unwrap());
                    }
                }
            }
            let zero = ids.iter().filter(|i| **i == 0).count();
            ids.sort_unstable();
            let dup = ids.windows(2).filter(|w| w[0] == w[1]).count();
            drop(root);
            fastrace::flush();
            let delivered = rep.0.lock().unwrap().len();
            extra = json!({"threads": n, "duplicate_span_ids": dup, "zero_span_ids": zero, "records_delivered": delivered});
            if zero > 0 {
                panic!("{} of {} spans got the span id 0", zero, n);
            }
            if dup > 25 {
                panic!("{} span ids were handed out twice among {} spans created on {} different threads (about 0.5 chance collisions are expected)", dup, n, n);
            }
        }
        "overlapping-flushes-cancelable" => {
            // a reporter that is slow inside report() while other threads call flush(), cancel a
            // trace, finish spans: cycles must not overlap in a way that loses a cancel (or a
            // record of a bystander trace, or delivers one twice)
            struct Gated {
                inside: Arc<std::sync::atomic::AtomicBool>,
                open: Arc<std::sync::atomic::AtomicBool>,
                got: Arc<Mutex<Vec<SpanRecord>>>,
            }
            impl Reporter for Gated {
                fn report(&mut self, spans: Vec<SpanRecord>) {
                    if !spans.is_empty() {
                        self.inside.store(true, Ordering::SeqCst);
                        let t = Instant::now();
                        while !self.open.load(Ordering::SeqCst) && t.elapsed() < Duration::from_secs(5) {
                            std::thread::sleep(Duration::from_millis(1));
                        }
                        self.inside.store(false, Ordering::SeqCst);
                    }
                    self.got.lock().unwrap().extend(spans);
                }
            }
            let inside = Arc::new(std::sync::atomic::AtomicBool::new(false));
            let open = Arc::new(std::sync::atomic::AtomicBool::new(true));
            let got = Arc::new(Mutex::new(Vec::new()));
            fastrace::set_reporter(Gated { inside: inside.clone(), open: open.clone(), got: got.clone() }, Config::default().cancelable(true).report_interval(Duration::from_secs(3600)));
            std::thread::sleep(Duration::from_millis(30));
            let mut rounds = 0;
            for round in 0..12u128 {
                let victim = Span::root("victim", SpanContext::new(TraceId(0xd100 + round), SpanId(1)));
                let child = Span::enter_with_parent("victim-child", &victim);
                drop(child);
                let by = Span::root("bystander", SpanContext::new(TraceId(0xd200 + round), SpanId(1)));
                // something to report, so that the first flush stays inside report()
                {
                    let t = Span::root("trigger", SpanContext::new(TraceId(0xd300 + round), SpanId(1)));
                    drop(t);
                }
                open.store(false, Ordering::SeqCst);
                let f1 = std::thread::spawn(fastrace::flush);
                let t = Instant::now();
                while !inside.load(Ordering::SeqCst) && t.elapsed() < Duration::from_secs(5) {
                    std::thread::sleep(Duration::from_millis(1));
                }
                let was_inside = inside.load(Ordering::SeqCst);
                victim.cancel();
                let bchild = Span::enter_with_parent("bystander-child", &by);
                drop(bchild);
                // a second cycle while the first is still inside report()
                let f2 = std::thread::spawn(fastrace::flush);
                std::thread::sleep(Duration::from_millis(15));
                let late = Span::enter_with_parent("victim-late-child", &victim);
                drop(late);
                open.store(true, Ordering::SeqCst);
                f1.join().unwrap();
                f2.join().unwrap();
                drop(victim);
                drop(by);
                fastrace::flush();
                fastrace::flush();
                if was_inside {
                    rounds += 1;
                }
                let recs = got.lock().unwrap();
                let leaked: Vec<&str> = recs.iter().filter(|r| r.trace_id.0 == 0xd100 + round).map(|r| &*r.name).collect();
                if !leaked.is_empty() {
                    panic!("round {}: records of the cancelled trace were delivered: {:?} (cancel() was called while a flush was inside a slow report() and another flush started)", round, leaked);
                }
                let mut bnames: Vec<&str> = recs.iter().filter(|r| r.trace_id.0 == 0xd200 + round).map(|r| &*r.name).collect();
                bnames.sort();
                if bnames != ["bystander", "bystander-child"] {
                    panic!("round {}: the bystander trace was delivered as {:?} with overlapping flushes around a slow report()", round, bnames);
                }
            }
            extra = json!({"rounds": 12, "rounds_with_a_flush_inside_report_during_the_cancel": rounds});
        }
        "steady-state-heap" | "steady-state-heap-cancelable" => {
            // the same mixed round of finished traces again and again: whatever the collector and
            // the threads keep after a round must not grow from round to round. Measured as live
            // heap bytes of the process after each round's cycles, reporter output thrown away.
            struct Null;
            impl Reporter for Null {
                fn report(&mut self, spans: Vec<SpanRecord>) {
                    drop(spans);
                }
            }
            let cancelable = sc.ends_with("cancelable");
            fastrace::set_reporter(Null, Config::default().cancelable(cancelable).report_interval(Duration::from_secs(3600)));
            std::thread::sleep(Duration::from_millis(30));
            let round = |k: u128| {
                for j in 0..20u128 {
                    let id = 0xe000_0000 + k * 100 + j;
                    let root = Span::root("root", SpanContext::new(TraceId(id), SpanId(1)));
                    let child = Span::enter_with_parent("child", &root);
                    let late = Span::enter_with_parent("late-child", &root);
                    let other = Span::enter_with_parent("other-thread-child", &root);
                    {
                        let _g = child.set_local_parent();
                        let _l = LocalSpan::enter_with_local_parent("local").with_property(|| ("k", "v"));
                        LocalSpan::add_event(Event::new("e"));
                    }
                    child.add_property(|| ("p", "q"));
                    drop(child);
                    std::thread::spawn(move || {
                        other.add_event(Event::new("from-thread"));
                        drop(other);
                    })
                    .join()
                    .unwrap();
                    if j % 5 == 4 {
                        root.cancel();
                    }
                    if j % 3 == 0 {
                        fastrace::flush();
                    }
                    drop(root);
                    fastrace::flush();
                    // after the trace is over: a late child with late attachments, from two threads
                    late.add_property(|| ("late", "1"));
                    late.add_event(Event::new("late-event"));
                    {
                        let _g = late.set_local_parent();
                        let _l = LocalSpan::enter_with_local_parent("late-local");
                    }
                    std::thread::spawn(move || drop(late)).join().unwrap();
                    if j % 4 == 1 {
                        let u = Span::root("unsampled", SpanContext::new(TraceId(id + 50), SpanId(1)).sampled(false));
                        let _c = Span::enter_with_parent("unsampled-child", &u);
                    }
                }
                for _ in 0..3 {
                    fastrace::flush();
                }
            };
            for k in 0..5 {
                round(k);
            }
            let base = LIVE_BYTES.load(Ordering::SeqCst);
            let mut series = vec![];
            for k in 5..45 {
                round(k);
                series.push(LIVE_BYTES.load(Ordering::SeqCst) - base);
            }
            let growth = *series.last().unwrap();
            let per_round = growth as f64 / 40.0;
            extra = json!({"rounds": 40, "traces_per_round": 20, "live_heap_growth_bytes": growth, "growth_after_each_10_rounds": [series[9], series[19], series[29], series[39]]});
            // a leak of one small entry per trace would be about 40 x 20 x 50 B = 40 kB; allocator
            // noise (capacity of reused vectors, thread-local caches) stays far below
            if growth > 24_000 && series[39] > series[19] && series[19] > series[4] {
                panic!("live heap grew by {} bytes over 40 identical rounds of 20 finished traces ({:.0} B per round, still growing: {:?}): something of finished traces is retained", growth, per_round, [series[9], series[19], series[29], series[39]]);
            }
        }
        "reconfigure-interval" => {
            // tracing is configured with a long report interval first and re-configured with a
            // short one later: from then on the short interval holds (no flush() here)
            let r1 = Rep::default();
            fastrace::set_reporter(r1.clone(), Config::default().report_interval(Duration::from_secs(3600)));
            std::thread::sleep(Duration::from_millis(50));
            {
                let a = Span::root("first-config", SpanContext::new(TraceId(0xf001), SpanId(1)));
                drop(a);
            }
            fastrace::flush();
            let r2 = Rep::default();
            fastrace::set_reporter(r2.clone(), Config::default().report_interval(Duration::from_millis(5)));
            std::thread::sleep(Duration::from_millis(20));
            let mut worst = 0u128;
            for round in 0..5u128 {
                {
                    let root = Span::root("second-config", SpanContext::new(TraceId(0xf100 + round), SpanId(1)));
                    let _c = Span::enter_with_parent("child", &root);
                }
                let t = Instant::now();
                loop {
                    let n = r2.0.lock().unwrap().iter().filter(|r| r.trace_id.0 == 0xf100 + round).count();
                    if n == 2 {
                        break;
                    }
                    if t.elapsed() > Duration::from_secs(4) {
                        panic!("round {}: {} of 2 records were reported within 4 s after the reporter was re-configured from a 1 h to a 5 ms report interval, without flush()", round, n);
                    }
                    std::thread::sleep(Duration::from_millis(1));
                }
                worst = worst.max(t.elapsed().as_millis());
            }
            extra = json!({"rounds": 5, "worst_wait_ms": worst as u64});
        }
        "scope-counter-wrap" => {
            // 2^32 local scopes opened and closed on one thread (the age of a long-lived worker
            // thread that polls instrumented futures); afterwards local spans still nest and close
            // exactly as on a young thread
            let rep = install(false);
            let n: u64 = (1u64 << 32) + 1000;
            let t = Instant::now();
            for _ in 0..n {
                let lc = fastrace::local::LocalCollector::start();
                drop(lc);
            }
            let opened_s = t.elapsed().as_secs_f64();
            let rep2 = rep.clone();
            let check = move |tag: u128| -> Vec<String> {
                let rep = rep2.clone();
                let mut bad = vec![];
                let root = Span::root("root", SpanContext::new(TraceId(0xf300 + tag), SpanId(1)));
                let root_id = SpanContext::from_span(&root).map(|c| c.span_id);
                {
                    let _g = root.set_local_parent();
                    let first = LocalSpan::enter_with_local_parent("first");
                    let inside = SpanContext::current_local_parent().map(|c| c.span_id);
                    drop(first);
                    let after = SpanContext::current_local_parent().map(|c| c.span_id);
                    if inside == root_id || inside.is_none() {
                        bad.push(format!("inside the local span the local parent was {:?} (root {:?})", inside, root_id));
                    }
                    if after != root_id {
                        bad.push(format!("after the local span was dropped the local parent was {:?}, expected the scope's span {:?}", after, root_id));
                    }
                    let _second = LocalSpan::enter_with_local_parent("second").with_properties(|| [("k", "v")]);
                    LocalSpan::add_event(Event::new("ev"));
                }
                drop(root);
                fastrace::flush();
                let recs = rep.0.lock().unwrap();
                let mine: Vec<&SpanRecord> = recs.iter().filter(|r| r.trace_id.0 == 0xf300 + tag).collect();
                let by = |n: &str| mine.iter().find(|r| r.name == n).cloned();
                match (by("root"), by("first"), by("second")) {
                    (Some(r), Some(f), Some(s2)) => {
                        if f.parent_id != r.span_id || s2.parent_id != r.span_id {
                            bad.push(format!("parents: first under {:x}, second under {:x}, root is {:x} (first is {:x})", f.parent_id.0, s2.parent_id.0, r.span_id.0, f.span_id.0));
                        }
                        if s2.properties.len() != 1 || s2.events.len() != 1 || !f.events.is_empty() {
                            bad.push(format!("second has {} properties / {} events, first has {} events (expected 1 / 1 / 0)", s2.properties.len(), s2.events.len(), f.events.len()));
                        }
                    }
                    _ => bad.push(format!("delivered {:?}", mine.iter().map(|r| r.name.to_string()).collect::<Vec<_>>())),
                }
                bad
            };
            let young = std::thread::spawn({
                let check = check.clone();
                move || check(1)
            })
            .join()
            .unwrap();
            let old = check(2);
            extra = json!({"scopes_opened_on_one_thread": n, "seconds": opened_s, "young_thread": young, "old_thread": old});
            if !young.is_empty() {
                panic!("harness: the control on a young thread failed: {:?}", young);
            }
            if !old.is_empty() {
                panic!("on a thread that had opened 2^32 local scopes before: {:?}", old);
            }
        }
        "id-counter-wrap" => {
            // 2^32 span ids on one thread: the per-thread counter wraps; no call may panic
            // (about a minute in a debug build; thorough tier only)
            let _rep = install(false);
            let n: u64 = (1u64 << 32) + 1000;
            let mut x = 0u64;
            for _ in 0..n {
                x ^= SpanId::next_id().0;
            }
            let root = Span::root("after-wrap", SpanContext::new(TraceId(0xf200), SpanId(1)));
            let _c = Span::enter_with_parent("child", &root);
            extra = json!({"ids_generated_on_one_thread": n, "xor": x});
        }
        "tls-cancel-in-destructor-cancelable" => {
            // a root is cancelled and dropped inside a user thread-local destructor, in every order
            // of initialisation of the user's and the library's thread-locals: whatever still gets
            // through at that point, nothing of a cancelled trace may be delivered
            struct Holder(std::cell::RefCell<Option<Span>>);
            impl Drop for Holder {
                fn drop(&mut self) {
                    if let Some(root) = self.0.borrow_mut().take() {
                        root.cancel();
                        drop(root);
                    }
                }
            }
            thread_local! { static HOLD: Holder = const { Holder(std::cell::RefCell::new(None)) }; }
            let rep = install(true);
            let mut n = 0u128;
            for order in 0..3 {
                for _ in 0..4 {
                    n += 1;
                    let tid = 0xabc0_0000 + n;
                    std::thread::spawn(move || {
                        if order == 0 {
                            // the user's thread-local first: its destructor runs after the library's
                            HOLD.with(|h| drop(h.0.borrow()));
                        }
                        let root = Span::root("teardown-root", SpanContext::new(TraceId(tid), SpanId(1)));
                        {
                            let c1 = Span::enter_with_parent("step-1", &root);
                            let _g = c1.set_local_parent();
                            let _l = LocalSpan::enter_with_local_parent("step-1-local");
                        }
                        if order == 2 {
                            // no flush: everything of the trace is still in this thread's queue
                        } else {
                            fastrace::flush();
                        }
                        let c2 = Span::enter_with_parent("step-2", &root);
                        drop(c2);
                        HOLD.with(|h| *h.0.borrow_mut() = Some(root));
                    })
                    .join()
                    .unwrap();
                    fastrace::flush();
                    fastrace::flush();
                }
            }
            let recs = rep.0.lock().unwrap();
            let leaked: Vec<String> = recs.iter().filter(|r| r.trace_id.0 > 0xabc0_0000 && r.trace_id.0 <= 0xabc0_0000 + n).map(|r| format!("{}@{:x}", r.name, r.trace_id.0)).collect();
            extra = json!({"threads": n as u64, "records_of_cancelled_traces": leaked.len()});
            if !leaked.is_empty() {
                panic!("records of traces whose root was cancelled (inside a thread-local destructor) were delivered: {:?}", &leaked[..leaked.len().min(6)]);
            }
        }
        "set-reporter-vs-cycles" => {
            // tracing is re-initialised again and again while other threads run collector cycles
            // and fresh threads make their first tracing call: everything must keep returning
            // (a lock-order inversion between these paths hangs the process; the parent's watchdog
            // sees that)
            let rep = Rep::default();
            fastrace::set_reporter(rep.clone(), Config::default().report_interval(Duration::from_secs(3600)));
            let stop = Arc::new(std::sync::atomic::AtomicBool::new(false));
            let mut hs = vec![];
            for _ in 0..2 {
                let stop = stop.clone();
                hs.push(std::thread::spawn(move || {
                    let mut n = 0u64;
                    while !stop.load(Ordering::SeqCst) {
                        fastrace::verif::run_collector_cycle();
                        n += 1;
                    }
                    n
                }));
            }
            let stop2 = stop.clone();
            let fresh = std::thread::spawn(move || {
                let mut n = 0u64;
                while !stop2.load(Ordering::SeqCst) {
                    std::thread::spawn(|| {
                        let r = Span::root("fresh", SpanContext::new(TraceId(0xfe01), SpanId(1)));
                        drop(r);
                    })
                    .join()
                    .unwrap();
                    n += 1;
                }
                n
            });
            let t = Instant::now();
            let mut sets = 0u64;
            while t.elapsed() < Duration::from_millis(1500) && sets < 400 {
                fastrace::set_reporter(rep.clone(), Config::default().report_interval(Duration::from_secs(3600)));
                sets += 1;
            }
            stop.store(true, Ordering::SeqCst);
            let cycles: u64 = hs.into_iter().map(|h| h.join().unwrap()).sum();
            let fresh_threads = fresh.join().unwrap();
            extra = json!({"set_reporter_calls": sets, "concurrent_cycles": cycles, "fresh_threads_that_traced": fresh_threads});
        }
        "many-cycles-before-finish" | "many-cycles-before-finish-cancelable" => {
            // a span stays open across thousands of collector cycles after events and properties
            // were attached to it: they are still on it when it finally finishes
            let rep = Rep::default();
            let cancelable = sc.ends_with("cancelable");
            fastrace::set_reporter(rep.clone(), Config::default().cancelable(cancelable).report_interval(Duration::from_secs(3600)));
            std::thread::sleep(Duration::from_millis(30));
            let root = Span::root("long-root", SpanContext::new(TraceId(0xfd01), SpanId(1)));
            let child = Span::enter_with_parent("long-child", &root).with_property(|| ("at", "creation"));
            child.add_property(|| ("by", "handle"));
            child.add_event(Event::new("handle-event"));
            {
                let _g = child.set_local_parent();
                LocalSpan::add_property(|| ("by", "scope"));
                LocalSpan::add_event(Event::new("scope-event"));
            }
            let cycles = 7000;
            for _ in 0..cycles {
                fastrace::verif::run_collector_cycle();
            }
            drop(child);
            drop(root);
            fastrace::flush();
            fastrace::flush();
            let recs = rep.0.lock().unwrap();
            let c: Vec<&SpanRecord> = recs.iter().filter(|r| r.name == "long-child").collect();
            if c.len() != 1 {
                panic!("{} records of the long-lived child", c.len());
            }
            let props: Vec<String> = c[0].properties.iter().map(|(k, v)| format!("{}={}", k, v)).collect();
            let evs: Vec<String> = c[0].events.iter().map(|e| e.name.to_string()).collect();
            extra = json!({"collector_cycles_while_open": cycles, "properties": props, "events": evs});
            if props != ["at=creation", "by=handle", "by=scope"] || evs != ["handle-event", "scope-event"] {
                panic!("after {} collector cycles the span came out with properties {:?} and events {:?}; attached were at=creation, by=handle, by=scope and handle-event, scope-event", cycles, props, evs);
            }
        }
        "flush-delivers-what-finished-before-it" => {
            // flush() called while another cycle is busy inside a slow report(): whatever had
            // finished before the call must have been reported when it returns
            struct Slow2 {
                inside: Arc<std::sync::atomic::AtomicBool>,
                open: Arc<std::sync::atomic::AtomicBool>,
                got: Arc<Mutex<Vec<String>>>,
            }
            impl Reporter for Slow2 {
                fn report(&mut self, spans: Vec<SpanRecord>) {
                    if !spans.is_empty() {
                        self.inside.store(true, Ordering::SeqCst);
                        let t = Instant::now();
                        while !self.open.load(Ordering::SeqCst) && t.elapsed() < Duration::from_secs(5) {
                            std::thread::sleep(Duration::from_millis(1));
                        }
                        self.inside.store(false, Ordering::SeqCst);
                    }
                    self.got.lock().unwrap().extend(spans.iter().map(|r| r.name.to_string()));
                }
            }
            let inside = Arc::new(std::sync::atomic::AtomicBool::new(false));
            let open = Arc::new(std::sync::atomic::AtomicBool::new(true));
            let got = Arc::new(Mutex::new(Vec::new()));
            fastrace::set_reporter(Slow2 { inside: inside.clone(), open: open.clone(), got: got.clone() }, Config::default().report_interval(Duration::from_secs(3600)));
            std::thread::sleep(Duration::from_millis(30));
            for round in 0..10u128 {
                {
                    let e = Span::root(format!("early-{}", round), SpanContext::new(TraceId(0xfc00 + round), SpanId(1)));
                    drop(e);
                }
                open.store(false, Ordering::SeqCst);
                let f1 = std::thread::spawn(fastrace::flush);
                let t = Instant::now();
                while !inside.load(Ordering::SeqCst) && t.elapsed() < Duration::from_secs(5) {
                    std::thread::sleep(Duration::from_millis(1));
                }
                let name = format!("late-{}", round);
                {
                    let l = Span::root(name.clone(), SpanContext::new(TraceId(0xfc80 + round), SpanId(1)));
                    drop(l);
                }
                // the gate opens a little later, on its own
                let o = open.clone();
                let opener = std::thread::spawn(move || {
                    std::thread::sleep(Duration::from_millis(60));
                    o.store(true, Ordering::SeqCst);
                });
                fastrace::flush();
                let delivered = got.lock().unwrap().iter().any(|n| *n == name);
                f1.join().unwrap();
                opener.join().unwrap();
                if !delivered {
                    panic!("round {}: flush() returned but {:?}, finished before the call, had not been reported (another cycle was inside a slow report() when flush() was called)", round, name);
                }
            }
            extra = json!({"rounds": 10});
        }
        "panicking-closures-in-scope" => {
            // property closures that panic (caught by the caller) inside an open scope: afterwards
            // the thread's local context is what it was before the call
            let rep = install(false);
            let root = Span::root("pc-root", SpanContext::new(TraceId(0xfb01), SpanId(1)));
            let root_ctx = SpanContext::from_span(&root).map(|c| (c.trace_id.0, c.span_id.0));
            let quiet = |f: &mut dyn FnMut()| {
                let r = catch_unwind(AssertUnwindSafe(f));
                assert!(r.is_err(), "harness: the closure was expected to panic");
            };
            // no panic message noise
            let prev = std::panic::take_hook();
            std::panic::set_hook(Box::new(|_| {}));
            let mut problems: Vec<String> = vec![];
            {
                let _g = root.set_local_parent();
                let mut check = |what: &str| {
                    let now = SpanContext::current_local_parent().map(|c| (c.trace_id.0, c.span_id.0));
                    if now != root_ctx {
                        problems.push(format!("after {}: current_local_parent() = {:x?}, expected the root {:x?}", what, now, root_ctx));
                    }
                };
                quiet(&mut || {
                    let _l = LocalSpan::enter_with_local_parent("pc-local-1").with_properties(|| -> Vec<(String, String)> { panic!("user closure") });
                });
                check("LocalSpan::with_properties(panicking closure)");
                quiet(&mut || {
                    let _l = LocalSpan::enter_with_local_parent("pc-local-2").with_property(|| -> (String, String) { panic!("user closure") });
                });
                check("LocalSpan::with_property(panicking closure)");
                quiet(&mut || {
                    let _l = LocalSpan::enter_with_local_parent("pc-local-3");
                    LocalSpan::add_properties(|| -> Vec<(String, String)> { panic!("user closure") });
                });
                check("LocalSpan::add_properties(panicking closure) inside a local span");
                quiet(&mut || LocalSpan::add_property(|| -> (String, String) { panic!("user closure") }));
                check("LocalSpan::add_property(panicking closure)");
                quiet(&mut || {
                    let _s = Span::enter_with_local_parent("pc-span").with_properties(|| -> Vec<(String, String)> { panic!("user closure") });
                });
                check("Span::with_properties(panicking closure)");
                quiet(&mut || root.add_properties(|| -> Vec<(String, String)> { panic!("user closure") }));
                check("Span::add_properties(panicking closure)");
                quiet(&mut || LocalSpan::add_event(Event::new("pc-event").with_properties(|| -> Vec<(String, String)> { panic!("user closure") })));
                check("Event::with_properties(panicking closure)");
                // and the scope still works
                let _after = LocalSpan::enter_with_local_parent("pc-after");
                LocalSpan::add_event(Event::new("pc-after-event"));
                let c = Span::enter_with_local_parent("pc-after-child");
                drop(c);
            }
            std::panic::set_hook(prev);
            let root_id = root_ctx.map(|c| c.1).unwrap_or(0);
            drop(root);
            fastrace::flush();
            let recs = rep.0.lock().unwrap();
            let after = recs.iter().find(|r| r.name == "pc-after");
            let child = recs.iter().find(|r| r.name == "pc-after-child");
            match (after, child) {
                (Some(a), Some(c)) => {
                    if a.parent_id.0 != root_id {
                        problems.push(format!("the local span entered after the panics hangs under {:x}, expected the root {:x}", a.parent_id.0, root_id));
                    }
                    if c.parent_id != a.span_id {
                        problems.push(format!("the child created inside it hangs under {:x}, expected {:x}", c.parent_id.0, a.span_id.0));
                    }
                    if a.events.len() != 1 {
                        problems.push(format!("the local span entered after the panics carries {} events, expected 1", a.events.len()));
                    }
                }
                _ => problems.push("the spans recorded after the panics were not delivered".to_string()),
            }
            extra = json!({"closure_panics_contained": 7, "problems": problems.len()});
            if !problems.is_empty() {
                panic!("{}", problems.join("; "));
            }
        }
        "deep-backlog" => {
            // more finish signals parked in one episode than the ring has slots (10240): they must
            // all get through once the collector runs again, and later traces must be complete
            let rep = Rep::default();
            fastrace::set_reporter(rep.clone(), Config::default().report_interval(Duration::from_secs(3600)));
            std::thread::sleep(Duration::from_millis(50));
            let n = 10_800usize;
            let mut roots = Vec::with_capacity(n);
            for i in 0..n {
                roots.push(Span::root("r", SpanContext::new(TraceId(0x5000_0000 + i as u128), SpanId(1))));
                if i % 4000 == 3999 {
                    fastrace::flush();
                }
            }
            fastrace::flush();
            let flood = Span::root("flood", SpanContext::new(TraceId(0x4fff_ffff), SpanId(1)));
            for _ in 0..10_400 {
                flood.add_event(Event::new("f"));
            }
            // the ring is full: every finish below parks its commit
            for r in roots.drain(..) {
                drop(r);
            }
            let mut rounds = 0;
            for _ in 0..6 {
                fastrace::flush();
                flood.add_event(Event::new("probe"));
                rounds += 1;
            }
            fastrace::flush();
            {
                let a = Span::root("after", SpanContext::new(TraceId(0x4fff_fff0), SpanId(1)));
                let _c = Span::enter_with_parent("after-child", &a);
            }
            drop(flood);
            fastrace::flush();
            fastrace::flush();
            let recs = rep.0.lock().unwrap();
            let commits_seen = recs.iter().filter(|r| r.name == "r").count();
            let after: Vec<&str> = recs.iter().filter(|r| r.trace_id.0 == 0x4fff_fff0).map(|r| &*r.name).collect();
            extra = json!({"parked_finishes": n, "rounds": rounds, "root_records_delivered": commits_seen, "after_trace": after});
            // the roots' own records were submitted while the ring was full (they may be missing);
            // what must not be lost is the finish signal: the collector must not keep the traces
            let st = fastrace::verif::collector_stats();
            if !st.active_collect_ids.is_empty() {
                panic!("{} traces are still held by the collector after their finish signals were parked in a {}-deep backlog and the queue drained", st.active_collect_ids.len(), n);
            }
            if after.len() != 2 {
                panic!("the trace started after the backlog drained was delivered as {:?}", after);
            }
        }
        "deep-backlog-cancel" => {
            // a cancel parked behind more forced commands than the ring has slots must still win
            // over the later finish of its root
            let rep = Rep::default();
            fastrace::set_reporter(rep.clone(), Config::default().cancelable(true).report_interval(Duration::from_secs(3600)));
            std::thread::sleep(Duration::from_millis(50));
            let victim = Span::root("victim", SpanContext::new(TraceId(0x6001), SpanId(1)));
            let vchild = Span::enter_with_parent("victim-child", &victim);
            let by = Span::root("bystander", SpanContext::new(TraceId(0x6002), SpanId(1)));
            fastrace::flush();
            for _ in 0..10_400 {
                by.add_event(Event::new("f"));
            }
            for _ in 0..10_300 {
                by.cancel();
            }
            victim.cancel();
            for _ in 0..6 {
                fastrace::flush();
                by.add_event(Event::new("probe"));
            }
            drop(vchild);
            drop(victim);
            drop(by);
            fastrace::flush();
            {
                let a = Span::root("after", SpanContext::new(TraceId(0x6003), SpanId(1)));
                let _c = Span::enter_with_parent("after-child", &a);
            }
            fastrace::flush();
            fastrace::flush();
            let recs = rep.0.lock().unwrap();
            let leaked: Vec<&str> = recs.iter().filter(|r| r.trace_id.0 == 0x6001 || r.trace_id.0 == 0x6002).map(|r| &*r.name).collect();
            let after: Vec<&str> = recs.iter().filter(|r| r.trace_id.0 == 0x6003).map(|r| &*r.name).collect();
            extra = json!({"parked_cancels": 10_301, "cancelled_records_delivered": leaked.len(), "after_trace": after});
            if !leaked.is_empty() {
                panic!("records of cancelled traces were delivered after a deep backlog: {:?}", &leaked[..leaked.len().min(4)]);
            }
            if after.len() != 2 {
                panic!("the trace started after the backlog drained was delivered as {:?}", after);
            }
        }
        "full-ring" | "full-ring-cancelable" => {
            let (worst, calls) = full_ring(sc.ends_with("cancelable"));
            extra = json!({"worst_call_us": worst as u64, "timed_calls": calls});
            if worst > 2_000_000 {
                panic!("a tracing call took {} us while the command ring was full", worst);
            }
        }
        s if s.starts_with("tls-") => {
            // tls-<order>-<kind>[-noreporter]
            let parts: Vec<&str> = s.split('-').collect();
            let order = parts[1].chars().next().unwrap();
            let kind: u8 = parts[2].parse().unwrap();
            if parts.get(3) != Some(&"noreporter") {
                let _r = install(parts.get(3) == Some(&"cancelable"));
            }
            for _ in 0..3 {
                tls_scenario(order, kind);
            }
            fastrace::flush();
        }
        other => panic!("unknown scenario {}", other),
    }));
    let doc = match r {
        Ok(()) => json!({"scenario": scenario, "ok": true, "calls": CALLS.load(Ordering::Relaxed), "extra": extra, "wall_s": t0.elapsed().as_secs_f64()}),
        Err(e) => json!({"scenario": scenario, "ok": false, "panic": hx::exec::panic_msg(&e), "calls": CALLS.load(Ordering::Relaxed), "wall_s": t0.elapsed().as_secs_f64()}),
    };
    std::fs::write(&out, serde_json::to_string_pretty(&doc).unwrap()).unwrap();
    std::process::exit(0);
}
