//! C12: traceparent / id text codecs against an independent reference classifier.

use std::collections::{BTreeMap, HashSet};
use std::panic::{catch_unwind, AssertUnwindSafe};
use std::str::FromStr;
use std::time::Instant;

use fastrace::collector::{SpanContext, SpanId, TraceId};
use hx::rng::Rng;
use serde_json::json;

#[derive(Debug, Clone, PartialEq)]
enum Class {
    /// the statement requires None
    MustNone(&'static str),
    /// well formed: if Some, the values must be these
    WellFormed { trace: u128, span: u64, sampled: bool, canonical: bool },
    /// the statement does not settle it (a leading '+' in a numeric field)
    Unspecified,
}

fn hexval(c: char) -> Option<u32> {
    match c {
        '0'..='9' => Some(c as u32 - '0' as u32),
        'a'..='f' => Some(c as u32 - 'a' as u32 + 10),
        'A'..='F' => Some(c as u32 - 'A' as u32 + 10),
        _ => None,
    }
}

/// char-level parse of a hexadecimal field that must fit `bits` bits
fn parse_field(f: &str, bits: u32) -> Result<u128, &'static str> {
    if f.is_empty() {
        return Err("empty field");
    }
    let mut v: u128 = 0;
    let mut significant = 0u32; // significant hex digits seen
    for c in f.chars() {
        let d = hexval(c).ok_or("non-hex character")?;
        if significant == 0 && d == 0 {
            continue;
        }
        significant += 1;
        if significant > 32 {
            return Err("does not fit width");
        }
        v = (v << 4) | d as u128;
    }
    if bits < 128 && v >> bits != 0 {
        return Err("does not fit width");
    }
    Ok(v)
}

fn classify(s: &str) -> Class {
    let fields: Vec<&str> = s.split('-').collect();
    if fields.len() != 4 {
        return Class::MustNone("not four dash-separated fields");
    }
    if fields[0] != "00" {
        return Class::MustNone("version is not 00");
    }
    // a sign is not a hexadecimal digit, but integer parsers commonly accept '+': unspecified
    let plus = fields[1..].iter().any(|f| f.starts_with('+'));
    let mut vals = [0u128; 3];
    for (i, (f, bits)) in fields[1..].iter().zip([128u32, 64, 8]).enumerate() {
        let g = if plus { f.strip_prefix('+').unwrap_or(f) } else { f };
        match parse_field(g, bits) {
            Ok(v) => vals[i] = v,
            Err(why) => return Class::MustNone(why),
        }
    }
    if plus {
        return Class::Unspecified;
    }
    let canonical = s.len() == 55
        && fields[1].len() == 32
        && fields[2].len() == 16
        && fields[3].len() == 2
        && s.chars().all(|c| c == '-' || c.is_ascii_digit() || ('a'..='f').contains(&c));
    Class::WellFormed { trace: vals[0], span: vals[1] as u64, sampled: vals[2] & 1 == 1, canonical }
}

fn is_canonical_form(s: &str) -> bool {
    let b = s.as_bytes();
    if b.len() != 55 || &s[..3] != "00-" || b[35] != b'-' || b[52] != b'-' {
        return false;
    }
    let hex = |r: &[u8]| r.iter().all(|c| c.is_ascii_digit() || (b'a'..=b'f').contains(c));
    hex(&b[3..35]) && hex(&b[36..52]) && hex(&b[53..55])
}

struct St {
    evals: usize,
    distinct: HashSet<u64>,
    classes: BTreeMap<String, usize>,
    violations: Vec<serde_json::Value>,
    samples: Vec<serde_json::Value>,
}

impl St {
    fn viol(&mut self, sig: &str, detail: String) {
        if self.violations.len() < 20 {
            self.violations.push(json!({"category": "Codec", "signature": sig, "detail": detail}));
        }
    }
}

fn check_text(st: &mut St, s: &str) {
    st.evals += 1;
    let cls = classify(s);
    let cname = match &cls {
        Class::MustNone(w) => format!("must-none: {}", w),
        Class::WellFormed { canonical: true, .. } => "canonical".to_string(),
        Class::WellFormed { .. } => "well-formed non-canonical".to_string(),
        Class::Unspecified => "unspecified (+ sign)".to_string(),
    };
    *st.classes.entry(cname.clone()).or_insert(0) += 1;
    if !matches!(cls, Class::WellFormed { canonical: true, .. }) {
        st.distinct.insert(hx::rng::fnv(s.as_bytes()));
    }
    let r = catch_unwind(AssertUnwindSafe(|| SpanContext::decode_w3c_traceparent(s)));
    let got = match r {
        Err(_) => {
            st.viol("decode-panic", format!("decode_w3c_traceparent panicked on {:?}", s));
            return;
        }
        Ok(g) => g,
    };
    match (&cls, got) {
        (Class::MustNone(why), Some(c)) => st.viol(
            "decode-accepts-malformed",
            format!("decode_w3c_traceparent({:?}) = Some({:032x},{:016x},{}) but the text is malformed: {}", s, c.trace_id.0, c.span_id.0, c.sampled, why),
        ),
        (Class::WellFormed { trace, span, sampled, canonical }, g) => match g {
            Some(c) => {
                if c.trace_id.0 != *trace || c.span_id.0 != *span || c.sampled != *sampled {
                    st.viol(
                        "decode-wrong-value",
                        format!("decode_w3c_traceparent({:?}) = ({:032x},{:016x},{}), expected ({:032x},{:016x},{})", s, c.trace_id.0, c.span_id.0, c.sampled, trace, span, sampled),
                    );
                }
            }
            None => {
                if *canonical {
                    st.viol("decode-rejects-canonical", format!("decode_w3c_traceparent({:?}) = None for a canonical traceparent", s));
                }
            }
        },
        _ => {}
    }
    if st.samples.len() < 8 && st.evals % 9973 == 1 {
        st.samples.push(json!({"input": s, "class": cname, "decoded": got.map(|c| format!("{:032x}-{:016x}-{}", c.trace_id.0, c.span_id.0, c.sampled))}));
    }
}

fn check_ctx(st: &mut St, trace: u128, span: u64, sampled: bool) {
    st.evals += 1;
    let c = SpanContext::new(TraceId(trace), SpanId(span)).sampled(sampled);
    let enc = match catch_unwind(AssertUnwindSafe(|| c.encode_w3c_traceparent())) {
        Ok(e) => e,
        Err(_) => {
            st.viol("encode-panic", format!("encode panicked for ({:x},{:x},{})", trace, span, sampled));
            return;
        }
    };
    if !is_canonical_form(&enc) {
        st.viol("encode-form", format!("encode of ({:x},{:x},{}) = {:?} is not 00-<32 hex>-<16 hex>-<2 hex>", trace, span, sampled, enc));
    }
    match catch_unwind(AssertUnwindSafe(|| SpanContext::decode_w3c_traceparent(&enc))) {
        Ok(Some(d)) => {
            if d.trace_id.0 != trace || d.span_id.0 != span || d.sampled != sampled {
                st.viol("round-trip", format!("decode(encode({:x},{:x},{})) = ({:x},{:x},{}) via {:?}", trace, span, sampled, d.trace_id.0, d.span_id.0, d.sampled, enc));
            }
        }
        Ok(None) => st.viol("round-trip", format!("decode(encode({:x},{:x},{})) = None via {:?}", trace, span, sampled, enc)),
        Err(_) => st.viol("decode-panic", format!("decode panicked on own encoding {:?}", enc)),
    }
    // the deprecated encoder with an explicit flag: the same text as sampled(flag) + encode
    #[allow(deprecated)]
    for flag in [sampled, !sampled] {
        match catch_unwind(AssertUnwindSafe(|| c.encode_w3c_traceparent_with_sampled(flag))) {
            Ok(e) => {
                let want = format!("00-{:032x}-{:016x}-{:02x}", trace, span, flag as u8);
                if e != want {
                    st.viol("encode-form", format!("encode_w3c_traceparent_with_sampled({}) of ({:x},{:x},{}) = {:?}, expected {:?}", flag, trace, span, sampled, e, want));
                }
            }
            Err(_) => st.viol("encode-panic", format!("encode_w3c_traceparent_with_sampled panicked for ({:x},{:x},{})", trace, span, flag)),
        }
    }
    // fresh contexts (random / default) are sampled and round-trip like any other
    if st.evals % 64 == 0 {
        for k in 0..2 {
            match catch_unwind(AssertUnwindSafe(|| if k == 0 { SpanContext::random() } else { SpanContext::default() })) {
                Ok(f) => {
                    let back = SpanContext::decode_w3c_traceparent(&f.encode_w3c_traceparent());
                    if !f.sampled || back.map(|b| (b.trace_id, b.span_id, b.sampled)) != Some((f.trace_id, f.span_id, true)) {
                        st.viol("round-trip", format!("fresh context {:?} (sampled={}) does not round-trip: {:?}", (f.trace_id, f.span_id), f.sampled, back.map(|b| (b.trace_id, b.span_id, b.sampled))));
                    }
                }
                Err(_) => st.viol("encode-panic", "SpanContext::random()/default() panicked".to_string()),
            }
        }
    }
    // ids: Display / FromStr / serde
    let t = TraceId(trace);
    let s = SpanId(span);
    let r = catch_unwind(AssertUnwindSafe(|| {
        let mut bad: Vec<String> = vec![];
        let td = t.to_string();
        let sd = s.to_string();
        let lower = |x: &str| x.chars().all(|c| c.is_ascii_digit() || ('a'..='f').contains(&c));
        if td.len() != 32 || !lower(&td) || td != format!("{:032x}", trace) {
            bad.push(format!("TraceId Display = {:?}", td));
        }
        if sd.len() != 16 || !lower(&sd) || sd != format!("{:016x}", span) {
            bad.push(format!("SpanId Display = {:?}", sd));
        }
        if TraceId::from_str(&td).ok() != Some(t) {
            bad.push(format!("TraceId FromStr(Display) != id for {:?}", td));
        }
        if SpanId::from_str(&sd).ok() != Some(s) {
            bad.push(format!("SpanId FromStr(Display) != id for {:?}", sd));
        }
        let tj = serde_json::to_string(&t).unwrap_or_default();
        let sj = serde_json::to_string(&s).unwrap_or_default();
        if tj != format!("\"{:032x}\"", trace) {
            bad.push(format!("TraceId serde = {}", tj));
        }
        if sj != format!("\"{:016x}\"", span) {
            bad.push(format!("SpanId serde = {}", sj));
        }
        if serde_json::from_str::<TraceId>(&tj).ok() != Some(t) {
            bad.push(format!("TraceId serde round trip failed for {}", tj));
        }
        if serde_json::from_str::<SpanId>(&sj).ok() != Some(s) {
            bad.push(format!("SpanId serde round trip failed for {}", sj));
        }
        // the same text through deserializers that cannot lend out a slice of their input
        // (an owned Value, a reader, text with an escape sequence, serde's own string
        // deserializers): "through serde" is not only `from_str`
        let tv = serde_json::to_value(t).ok();
        if tv.clone().and_then(|v| serde_json::from_value::<TraceId>(v).ok()) != Some(t) {
            bad.push(format!("TraceId does not round-trip through serde_json::Value ({:?})", tv));
        }
        let sv = serde_json::to_value(s).ok();
        if sv.clone().and_then(|v| serde_json::from_value::<SpanId>(v).ok()) != Some(s) {
            bad.push(format!("SpanId does not round-trip through serde_json::Value ({:?})", sv));
        }
        if serde_json::from_reader::<_, TraceId>(tj.as_bytes()).ok() != Some(t) {
            bad.push(format!("TraceId does not deserialize from a reader ({})", tj));
        }
        if serde_json::from_reader::<_, SpanId>(sj.as_bytes()).ok() != Some(s) {
            bad.push(format!("SpanId does not deserialize from a reader ({})", sj));
        }
        // the first character written as a JSON escape: the same string value
        let esc = |j: &str| -> String {
            let inner = &j[1..j.len() - 1];
            let mut it = inner.chars();
            match it.next() {
                Some(c) => format!("\"\\u{:04x}{}\"", c as u32, it.as_str()),
                None => j.to_string(),
            }
        };
        if serde_json::from_str::<TraceId>(&esc(&tj)).ok() != Some(t) {
            bad.push(format!("TraceId does not deserialize from escaped JSON text {}", esc(&tj)));
        }
        if serde_json::from_str::<SpanId>(&esc(&sj)).ok() != Some(s) {
            bad.push(format!("SpanId does not deserialize from escaped JSON text {}", esc(&sj)));
        }
        // a data format that is not human readable (bincode, MessagePack, ... ask the type through
        // `is_human_readable()`): the ids are hex text there as well
        {
            let t_bin = bin::to_token(&t);
            let s_bin = bin::to_token(&s);
            if t_bin != Some(bin::Token::Str(td.clone())) {
                bad.push(format!("TraceId serialized for a binary format as {:?}, expected the string {:?}", t_bin, td));
            }
            if s_bin != Some(bin::Token::Str(sd.clone())) {
                bad.push(format!("SpanId serialized for a binary format as {:?}, expected the string {:?}", s_bin, sd));
            }
            if bin::from_str::<TraceId>(&td) != Some(t) {
                bad.push(format!("TraceId does not deserialize from the hex string {:?} offered by a binary format", td));
            }
            if bin::from_str::<SpanId>(&sd) != Some(s) {
                bad.push(format!("SpanId does not deserialize from the hex string {:?} offered by a binary format", sd));
            }
        }
        {
            use serde::de::value::{Error as DeErr, StrDeserializer, StringDeserializer};
            use serde::de::IntoDeserializer;
            use serde::Deserialize;
            let d: StringDeserializer<DeErr> = td.clone().into_deserializer();
            if TraceId::deserialize(d).ok() != Some(t) {
                bad.push(format!("TraceId does not deserialize from an owned String ({})", td));
            }
            let d: StrDeserializer<DeErr> = sd.as_str().into_deserializer();
            if SpanId::deserialize(d).ok() != Some(s) {
                bad.push(format!("SpanId does not deserialize from a transient &str ({})", sd));
            }
        }
        bad
    }));
    match r {
        Ok(bad) => {
            for b in bad {
                st.viol("id-text", b);
            }
        }
        Err(_) => st.viol("id-text-panic", format!("Display/FromStr/serde panicked for ({:x},{:x})", trace, span)),
    }
    st.distinct.insert(hx::rng::fnv(enc.as_bytes()));
}

/// A minimal serde data format that declares itself not human readable: the serializer records the
/// one primitive a value is written as, the deserializer offers one string.
mod bin {
    use serde::de::{self, Visitor};
    use serde::ser::{self, Impossible};
    use serde::{Deserialize, Serialize};

    #[derive(Debug, Clone, PartialEq)]
    pub enum Token {
        Str(String),
        U64(u64),
        U128(u128),
        Bytes(Vec<u8>),
        Other(&'static str),
    }

    #[derive(Debug)]
    pub struct Err(String);
    impl std::fmt::Display for Err {
        fn fmt(&self, f: &mut std::fmt::Formatter<'_>) -> std::fmt::Result {
            f.write_str(&self.0)
        }
    }
    impl std::error::Error for Err {}
    impl ser::Error for Err {
        fn custom<T: std::fmt::Display>(m: T) -> Self {
            Err(m.to_string())
        }
    }
    impl de::Error for Err {
        fn custom<T: std::fmt::Display>(m: T) -> Self {
            Err(m.to_string())
        }
    }

    pub struct Ser;
    macro_rules! other {
        ($($f:ident($t:ty)),*) => { $(fn $f(self, _v: $t) -> Result<Token, Err> { Ok(Token::Other(stringify!($f))) })* };
    }
    impl ser::Serializer for Ser {
        type Ok = Token;
        type Error = Err;
        type SerializeSeq = Impossible<Token, Err>;
        type SerializeTuple = Impossible<Token, Err>;
        type SerializeTupleStruct = Impossible<Token, Err>;
        type SerializeTupleVariant = Impossible<Token, Err>;
        type SerializeMap = Impossible<Token, Err>;
        type SerializeStruct = Impossible<Token, Err>;
        type SerializeStructVariant = Impossible<Token, Err>;
        fn is_human_readable(&self) -> bool {
            false
        }
        fn serialize_str(self, v: &str) -> Result<Token, Err> {
            Ok(Token::Str(v.to_string()))
        }
        fn serialize_u64(self, v: u64) -> Result<Token, Err> {
            Ok(Token::U64(v))
        }
        fn serialize_u128(self, v: u128) -> Result<Token, Err> {
            Ok(Token::U128(v))
        }
        fn serialize_bytes(self, v: &[u8]) -> Result<Token, Err> {
            Ok(Token::Bytes(v.to_vec()))
        }
        other!(serialize_bool(bool), serialize_i8(i8), serialize_i16(i16), serialize_i32(i32), serialize_i64(i64), serialize_i128(i128), serialize_u8(u8), serialize_u16(u16), serialize_u32(u32), serialize_f32(f32), serialize_f64(f64), serialize_char(char));
        fn serialize_none(self) -> Result<Token, Err> {
            Ok(Token::Other("none"))
        }
        fn serialize_some<T: ?Sized + Serialize>(self, v: &T) -> Result<Token, Err> {
            v.serialize(Ser)
        }
        fn serialize_unit(self) -> Result<Token, Err> {
            Ok(Token::Other("unit"))
        }
        fn serialize_unit_struct(self, _n: &'static str) -> Result<Token, Err> {
            Ok(Token::Other("unit_struct"))
        }
        fn serialize_unit_variant(self, _n: &'static str, _i: u32, _v: &'static str) -> Result<Token, Err> {
            Ok(Token::Other("unit_variant"))
        }
        fn serialize_newtype_struct<T: ?Sized + Serialize>(self, _n: &'static str, v: &T) -> Result<Token, Err> {
            v.serialize(Ser)
        }
        fn serialize_newtype_variant<T: ?Sized + Serialize>(self, _n: &'static str, _i: u32, _v: &'static str, _x: &T) -> Result<Token, Err> {
            Ok(Token::Other("newtype_variant"))
        }
        fn serialize_seq(self, _l: Option<usize>) -> Result<Self::SerializeSeq, Err> {
            Result::Err(Err("seq".into()))
        }
        fn serialize_tuple(self, _l: usize) -> Result<Self::SerializeTuple, Err> {
            Result::Err(Err("tuple".into()))
        }
        fn serialize_tuple_struct(self, _n: &'static str, _l: usize) -> Result<Self::SerializeTupleStruct, Err> {
            Result::Err(Err("tuple_struct".into()))
        }
        fn serialize_tuple_variant(self, _n: &'static str, _i: u32, _v: &'static str, _l: usize) -> Result<Self::SerializeTupleVariant, Err> {
            Result::Err(Err("tuple_variant".into()))
        }
        fn serialize_map(self, _l: Option<usize>) -> Result<Self::SerializeMap, Err> {
            Result::Err(Err("map".into()))
        }
        fn serialize_struct(self, _n: &'static str, _l: usize) -> Result<Self::SerializeStruct, Err> {
            Result::Err(Err("struct".into()))
        }
        fn serialize_struct_variant(self, _n: &'static str, _i: u32, _v: &'static str, _l: usize) -> Result<Self::SerializeStructVariant, Err> {
            Result::Err(Err("struct_variant".into()))
        }
    }

    pub fn to_token<T: Serialize>(v: &T) -> Option<Token> {
        v.serialize(Ser).ok()
    }

    /// offers one owned string to whatever the type asks for
    pub struct De(pub String);
    impl<'de> de::Deserializer<'de> for De {
        type Error = Err;
        fn is_human_readable(&self) -> bool {
            false
        }
        fn deserialize_any<V: Visitor<'de>>(self, v: V) -> Result<V::Value, Err> {
            v.visit_string(self.0)
        }
        serde::forward_to_deserialize_any! {
            bool i8 i16 i32 i64 i128 u8 u16 u32 u64 u128 f32 f64 char str string bytes byte_buf option unit unit_struct
            newtype_struct seq tuple tuple_struct map struct enum identifier ignored_any
        }
    }

    pub fn from_str<T: for<'a> Deserialize<'a>>(s: &str) -> Option<T> {
        T::deserialize(De(s.to_string())).ok()
    }
}

fn field_shapes(width: usize) -> Vec<String> {
    let w = width;
    vec![
        "".into(),
        "0".into(),
        "f".repeat(w),
        format!("1{}", "0".repeat(w)),
        "f".repeat(w + 1),
        format!("{}{}", "0".repeat(40), "a"),
        format!("{}1{}", "0".repeat(8), "0".repeat(w)),
        "g".into(),
        format!("{}g", "1".repeat(w - 1)),
        "+1".into(),
        format!("+{}", "f".repeat(w)),
        "-1".into(),
        " 1".into(),
        "1 ".into(),
        "A".repeat(w),
        "aB".into(),
        "é".into(),
        "\u{0}".into(),
        "１".into(), // full-width digit
        "0x1".into(),
        "1_0".into(),
        "a".repeat(w),
        format!("{}1", "0".repeat(w - 1)),
    ]
}

fn main() {
    let mut seed = 1u64;
    let mut out = "/dev/stdout".to_string();
    let mut scale = 1usize;
    let mut time_limit = 30.0f64;
    let v: Vec<String> = std::env::args().collect();
    let mut i = 1;
    while i + 1 < v.len() {
        match v[i].as_str() {
            "--seed" => seed = v[i + 1].parse().unwrap_or(1),
            "--out" => out = v[i + 1].clone(),
            "--scale" => scale = v[i + 1].parse().unwrap_or(1),
            "--time-limit" => time_limit = v[i + 1].parse().unwrap_or(30.0),
            _ => {}
        }
        i += 2;
    }
    std::panic::set_hook(Box::new(|_| {}));
    let t0 = Instant::now();
    let mut rng = Rng::new(seed);
    let mut st = St { evals: 0, distinct: HashSet::new(), classes: BTreeMap::new(), violations: vec![], samples: vec![] };

    // 1. contexts: boundary products + random
    let bt: Vec<u128> = vec![0, 1, u128::MAX, 1 << 127, (1 << 127) - 1, 0x5555_5555_5555_5555_5555_5555_5555_5555, 0xAAAA_AAAA_AAAA_AAAA_AAAA_AAAA_AAAA_AAAA, 1 << 64, u64::MAX as u128, 0x0123_4567_89ab_cdef_0123_4567_89ab_cdef, 0xf, 0xf0 << 120];
    let bs: Vec<u64> = vec![0, 1, u64::MAX, 1 << 63, (1 << 63) - 1, 0x5555_5555_5555_5555, 0xAAAA_AAAA_AAAA_AAAA, 1 << 32, u32::MAX as u64, 0x0123_4567_89ab_cdef, 0xf, 0xf0 << 56];
    for t in &bt {
        for s in &bs {
            for f in [false, true] {
                check_ctx(&mut st, *t, *s, f);
            }
        }
    }
    let n_ctx = 60_000 * scale;
    for k in 0..n_ctx {
        // random ids with random numbers of leading zero nibbles
        let sh_t = rng.below(128) as u32;
        let sh_s = rng.below(64) as u32;
        let t = rng.u128() >> if k % 3 == 0 { sh_t } else { 0 };
        let s = rng.next() >> if k % 5 == 0 { sh_s } else { 0 };
        check_ctx(&mut st, t, s, k % 2 == 0);
        if t0.elapsed().as_secs_f64() > time_limit * 0.4 {
            break;
        }
    }

    // 2. text: complete product over field-shape classes
    let versions = ["00", "0", "000", "01", "ff", "", "0O", "+0", " 00", "00 "];
    let tshapes = field_shapes(32);
    let sshapes = field_shapes(16);
    let fshapes: Vec<String> = {
        let mut v = field_shapes(2);
        v.extend((0..=255u32).map(|b| format!("{:02x}", b)));
        v.extend(["1", "3", "100", "001", "0ff", "FF", "Ff"].iter().map(|s| s.to_string()));
        v
    };
    let mut product = 0usize;
    for ver in versions {
        for t in &tshapes {
            for s in &sshapes {
                for f in &fshapes {
                    if ver != "00" && product % 7 != 0 {
                        product += 1;
                        continue; // thin out: version already decides
                    }
                    product += 1;
                    check_text(&mut st, &format!("{}-{}-{}-{}", ver, t, s, f));
                }
            }
        }
    }
    // very long fields (every counter a decoder may keep per field wraps somewhere): lengths around
    // the powers of two up to 70000, all-significant digits, leading zeros + tail, in each position
    {
        let mut lens: Vec<usize> = vec![33, 34, 63, 64, 65, 100, 127, 128, 129, 250, 255, 256, 257, 258, 266, 300, 511, 512, 513, 1000, 4095, 4096, 4097, 65535, 65536, 65537, 70000];
        lens.extend([17usize, 18, 31, 32]);
        let good = ["00", "0af7651916cd43dd8448eb211c80319c", "b7ad6b7169203331", "01"];
        for &n in &lens {
            for digit in ["f", "1", "a"] {
                let all = digit.repeat(n);
                let zeros_then = format!("{}{}", "0".repeat(n - 1), digit);
                let one_then_zeros = format!("1{}", "0".repeat(n - 1));
                for long in [&all, &zeros_then, &one_then_zeros] {
                    for pos in 1..4 {
                        let mut parts: Vec<String> = good.iter().map(|x| x.to_string()).collect();
                        parts[pos] = long.clone();
                        check_text(&mut st, &parts.join("-"));
                    }
                }
            }
        }
    }
    // field counts 0..6
    let good = "00-0af7651916cd43dd8448eb211c80319c-b7ad6b7169203331-01";
    for n in 0..7 {
        let parts: Vec<&str> = good.split('-').cycle().take(n).collect();
        check_text(&mut st, &parts.join("-"));
        check_text(&mut st, &format!("{}-", parts.join("-")));
        check_text(&mut st, &format!("-{}", parts.join("-")));
    }
    for extra in ["", "-", "--", "00", "00-", "00--", "00---", "00----", "---", "00-1-1-1-", "00-1-1-1-1", "00-1--1", "\n", "00-1-1-1\n", "00-1-1-01 ", "00\u{2010}1\u{2010}1\u{2010}1"] {
        check_text(&mut st, extra);
    }

    // 2b. every ASCII byte (and a few other characters) substituted at the first, a middle and
    // the last position of each field of an otherwise canonical string, and inserted there
    {
        let mut chars: Vec<char> = (0u8..=127).map(|b| b as char).collect();
        chars.extend(['\u{80}', '\u{e9}', '\u{ff10}', '\u{ff21}', '\u{0660}', '\u{2010}', '\u{10ffff}']);
        let fields = ["0af7651916cd43dd8448eb211c80319c", "b7ad6b7169203331", "01"];
        for (fi, f) in fields.iter().enumerate() {
            let positions = [0usize, f.len() / 2, f.len() - 1];
            for pos in positions {
                for c in &chars {
                    for insert in [false, true] {
                        let mut v: Vec<char> = f.chars().collect();
                        if insert {
                            v.insert(pos, *c);
                        } else {
                            v[pos] = *c;
                        }
                        let nf: String = v.into_iter().collect();
                        let mut parts: Vec<String> = vec!["00".to_string(), fields[0].to_string(), fields[1].to_string(), fields[2].to_string()];
                        parts[fi + 1] = nf;
                        check_text(&mut st, &parts.join("-"));
                    }
                }
            }
        }
        // and in the version field
        for c in &chars {
            check_text(&mut st, &format!("0{}-{}-{}-{}", c, fields[0], fields[1], fields[2]));
            check_text(&mut st, &format!("{}0-{}-{}-{}", c, fields[0], fields[1], fields[2]));
        }
    }

    // 3. random byte / char mutations of valid strings
    let mut alphabet: Vec<char> = "0123456789abcdefABCDEFg-+ _xX\u{0}\u{e9}\u{ff11}\n".chars().collect();
    // every ASCII byte takes part in the random mutations as well
    alphabet.extend((0u8..=127).map(|b| b as char));
    let n_mut = 250_000 * scale;
    for k in 0..n_mut {
        let t = rng.u128();
        let s = rng.next();
        let base = format!("00-{:032x}-{:016x}-{:02x}", t, s, rng.below(256));
        let mut chars: Vec<char> = base.chars().collect();
        let edits = 1 + rng.below(3);
        for _ in 0..edits {
            match rng.below(4) {
                0 => {
                    let i = rng.below(chars.len());
                    chars[i] = *rng.pick(&alphabet);
                }
                1 => {
                    let i = rng.below(chars.len() + 1);
                    chars.insert(i, *rng.pick(&alphabet));
                }
                2 => {
                    if !chars.is_empty() {
                        let i = rng.below(chars.len());
                        chars.remove(i);
                    }
                }
                _ => {
                    // cut or duplicate a field
                    let txt: String = chars.iter().collect();
                    let mut f: Vec<String> = txt.split('-').map(|x| x.to_string()).collect();
                    if rng.chance(1, 2) && f.len() > 1 {
                        let i = rng.below(f.len());
                        f.remove(i);
                    } else {
                        let i = rng.below(f.len());
                        let d = f[i].clone();
                        f.insert(i, d);
                    }
                    chars = f.join("-").chars().collect();
                }
            }
        }
        let txt: String = chars.iter().collect();
        check_text(&mut st, &txt);
        if k % 1024 == 0 && t0.elapsed().as_secs_f64() > time_limit {
            break;
        }
    }
    // 4. fully random short strings over the alphabet
    for _ in 0..50_000 * scale {
        let n = rng.below(70);
        let txt: String = (0..n).map(|_| *rng.pick(&alphabet)).collect();
        check_text(&mut st, &txt);
    }
    // FromStr on arbitrary text must not panic
    for _ in 0..20_000 * scale {
        let n = rng.below(40);
        let txt: String = (0..n).map(|_| *rng.pick(&alphabet)).collect();
        st.evals += 1;
        if catch_unwind(AssertUnwindSafe(|| (TraceId::from_str(&txt).is_ok(), SpanId::from_str(&txt).is_ok(), serde_json::from_str::<TraceId>(&format!("{:?}", txt)).is_ok()))).is_err() {
            st.viol("id-text-panic", format!("FromStr / Deserialize panicked on {:?}", txt));
        }
    }

    let doc = json!({
        "property": "C12",
        "engine": "codec",
        "seed": seed,
        "executions": st.evals,
        "distinct_executions": st.distinct.len(),
        "programs": 1,
        "classes": st.classes,
        "violations": st.violations,
        "samples": st.samples,
        "inconclusive": [],
        "known_findings": {},
        "wall_s": t0.elapsed().as_secs_f64(),
    });
    std::fs::write(&out, serde_json::to_string_pretty(&doc).unwrap()).unwrap();
}
