//! Free-running stress: real parallelism, the real background collector, short-lived threads,
//! spans handed between threads, seeded delays injected at the hook points.  Oracles: exactly-once
//! delivery without any further call (counted in collector cycles), record correctness, single
//! batch per trace with cancelable(true), no retained collector state afterwards.

use std::collections::{HashMap, HashSet};
use std::sync::atomic::{AtomicBool, AtomicU64, AtomicUsize, Ordering};
use std::sync::mpsc;
use std::sync::{Arc, Mutex};
use std::time::{Duration, Instant};

use fastrace::collector::{Config, Reporter, SpanContext, SpanId, SpanRecord, TraceId};
use fastrace::prelude::*;
use fastrace::verif::Point;
use hx::rng::Rng;
use serde_json::json;

static CYCLES_BEGUN: AtomicU64 = AtomicU64::new(0);
static CYCLES_ENDED: AtomicU64 = AtomicU64::new(0);
static FULL_PUSHES: AtomicU64 = AtomicU64::new(0);
static HITS: [AtomicU64; 8] = [AtomicU64::new(0), AtomicU64::new(0), AtomicU64::new(0), AtomicU64::new(0), AtomicU64::new(0), AtomicU64::new(0), AtomicU64::new(0), AtomicU64::new(0)];
static DELAYS: AtomicU64 = AtomicU64::new(0);
static DELAY_ON: AtomicBool = AtomicBool::new(true);
static HOOK_RNG: AtomicU64 = AtomicU64::new(0x1234_5678_9abc_def1);
static REGISTERS_DURING_DRAIN: AtomicU64 = AtomicU64::new(0);
static IN_DRAIN: AtomicBool = AtomicBool::new(false);

thread_local! {
    static FILLER: std::cell::Cell<bool> = const { std::cell::Cell::new(false) };
}

fn spin(us: u64) {
    let t = Instant::now();
    while t.elapsed() < Duration::from_micros(us) {
        std::hint::spin_loop();
    }
}

fn hook_rand() -> u64 {
    // cheap shared xorshift; races only make it more random
    let mut x = HOOK_RNG.load(Ordering::Relaxed);
    x ^= x << 13;
    x ^= x >> 7;
    x ^= x << 17;
    HOOK_RNG.store(x, Ordering::Relaxed);
    x
}

fn hook(p: &Point) {
    let delay = DELAY_ON.load(Ordering::Relaxed);
    match p {
        Point::CycleBegin => {
            CYCLES_BEGUN.fetch_add(1, Ordering::SeqCst);
        }
        Point::CycleEnd => {
            CYCLES_ENDED.fetch_add(1, Ordering::SeqCst);
        }
        Point::PassBegin { .. } => {
            IN_DRAIN.store(true, Ordering::SeqCst);
            HITS[0].fetch_add(1, Ordering::Relaxed);
        }
        Point::DrainEnd => {
            IN_DRAIN.store(false, Ordering::SeqCst);
        }
        Point::DrainBegin { .. } => {
            HITS[1].fetch_add(1, Ordering::Relaxed);
            if delay && hook_rand() % 16 == 0 {
                DELAYS.fetch_add(1, Ordering::Relaxed);
                spin(5 + hook_rand() % 40);
            }
        }
        Point::RecvEmpty { .. } => {
            HITS[2].fetch_add(1, Ordering::Relaxed);
            // the producer-exit window: between the failed pop and the abandonment check
            if delay && hook_rand() % 4 == 0 {
                DELAYS.fetch_add(1, Ordering::Relaxed);
                spin(5 + hook_rand() % 60);
            }
        }
        Point::Register { .. } => {
            HITS[3].fetch_add(1, Ordering::Relaxed);
            if IN_DRAIN.load(Ordering::SeqCst) {
                REGISTERS_DURING_DRAIN.fetch_add(1, Ordering::Relaxed);
            }
        }
        Point::Send { .. } => {
            HITS[4].fetch_add(1, Ordering::Relaxed);
            if delay && hook_rand() % 64 == 0 {
                DELAYS.fetch_add(1, Ordering::Relaxed);
                spin(1 + hook_rand() % 30);
            }
        }
        Point::Push { full, .. } => {
            if *full && !FILLER.try_with(|f| f.get()).unwrap_or(false) {
                FULL_PUSHES.fetch_add(1, Ordering::Relaxed);
            }
        }
        Point::SenderDrop { .. } => {
            HITS[5].fetch_add(1, Ordering::Relaxed);
        }
        Point::BeforeReport { .. } => {
            if delay && hook_rand() % 8 == 0 {
                spin(10 + hook_rand() % 100);
            }
        }
        _ => {}
    }
}

struct Call {
    cycle: u64,
    records: Vec<SpanRecord>,
}

#[derive(Clone, Default)]
struct Rep(Arc<Mutex<Vec<Call>>>);
impl Reporter for Rep {
    fn report(&mut self, spans: Vec<SpanRecord>) {
        if !spans.is_empty() {
            self.0.lock().unwrap().push(Call { cycle: CYCLES_BEGUN.load(Ordering::SeqCst), records: spans });
        }
    }
}

/// what a job expects: (name, trace id, parent name or remote id)
#[derive(Clone, Debug)]
struct Expect {
    name: String,
    trace: u128,
    parent: Result<String, u64>,
    /// finished before the root finished (happens-before through channels / joins)
    before_root: bool,
    root: String,
    /// the trace was cancelled (cancelable configuration): nothing of it may be delivered
    forbidden: bool,
}

static EXPECT: Mutex<Vec<Expect>> = Mutex::new(Vec::new());
static JOBS_DONE: AtomicUsize = AtomicUsize::new(0);

fn expect(e: Expect) {
    EXPECT.lock().unwrap().push(e);
}

fn wait_cycles(n: u64) {
    let c0 = CYCLES_ENDED.load(Ordering::SeqCst);
    let t = Instant::now();
    while CYCLES_ENDED.load(Ordering::SeqCst) < c0 + n && t.elapsed() < Duration::from_secs(5) {
        std::thread::yield_now();
    }
}

fn job(j: usize, kind: usize, _cancelable: bool, seed: u64) {
    let mut rng = Rng::new(seed ^ (j as u64) << 20);
    let tid: u128 = ((j as u128 + 1) << 64) | rng.next() as u128;
    let remote = rng.next() | 1;
    let rn = format!("j{}-root", j);
    match kind {
        // a whole trace on one short-lived thread, which exits right after the last push
        0 => {
            let h = std::thread::spawn({
                let rn = rn.clone();
                move || {
                    let root = Span::root(rn.clone(), SpanContext::new(TraceId(tid), SpanId(remote)));
                    {
                        let _g = root.set_local_parent();
                        let _l = LocalSpan::enter_with_local_parent(format!("j{}-l0", j));
                        let _l2 = LocalSpan::enter_with_local_parent(format!("j{}-l1", j));
                    }
                    let c = Span::enter_with_parent(format!("j{}-c0", j), &root);
                    drop(c);
                    drop(root);
                }
            });
            h.join().unwrap();
            expect(Expect { name: format!("j{}-l0", j), trace: tid, parent: Ok(rn.clone()), before_root: true, root: rn.clone(), forbidden: false });
            expect(Expect { name: format!("j{}-l1", j), trace: tid, parent: Ok(format!("j{}-l0", j)), before_root: true, root: rn.clone(), forbidden: false });
            expect(Expect { name: format!("j{}-c0", j), trace: tid, parent: Ok(rn.clone()), before_root: true, root: rn.clone(), forbidden: false });
            expect(Expect { name: rn.clone(), trace: tid, parent: Err(remote), before_root: true, root: rn.clone(), forbidden: false });
        }
        // cancelable only: children on fresh threads, cancel() here, the root finishes on yet
        // another fresh thread; nothing of the trace may ever be delivered
        3 => {
            let root = Span::root(rn.clone(), SpanContext::new(TraceId(tid), SpanId(remote)));
            let root = Arc::new(Mutex::new(Some(root)));
            let n = 1 + rng.below(2);
            let mut hs = vec![];
            for k in 0..n {
                let root = root.clone();
                let nm = format!("j{}-c{}", j, k);
                hs.push(std::thread::spawn(move || {
                    let c = {
                        let g = root.lock().unwrap();
                        Span::enter_with_parent(nm, g.as_ref().unwrap())
                    };
                    drop(c);
                }));
            }
            let early = rng.chance(1, 2);
            if early {
                root.lock().unwrap().as_ref().unwrap().cancel();
            }
            for h in hs {
                h.join().unwrap();
            }
            if !early {
                root.lock().unwrap().as_ref().unwrap().cancel();
            }
            let r = root.lock().unwrap().take().unwrap();
            std::thread::spawn(move || drop(r)).join().unwrap();
            for k in 0..n {
                expect(Expect { name: format!("j{}-c{}", j, k), trace: tid, parent: Ok(rn.clone()), before_root: true, root: rn.clone(), forbidden: true });
            }
            expect(Expect { name: rn.clone(), trace: tid, parent: Err(remote), before_root: true, root: rn.clone(), forbidden: true });
        }
        // root on this thread; children finish as the FIRST tracing operation of fresh threads
        // that exit at once; then the root finishes here (or on yet another fresh thread)
        _ => {
            let root = Span::root(rn.clone(), SpanContext::new(TraceId(tid), SpanId(remote)));
            let root = Arc::new(Mutex::new(Some(root)));
            let n = 1 + rng.below(3);
            let mut hs = vec![];
            for k in 0..n {
                let root = root.clone();
                let nm = format!("j{}-c{}", j, k);
                hs.push(std::thread::spawn(move || {
                    let c = {
                        let g = root.lock().unwrap();
                        Span::enter_with_parent(nm, g.as_ref().unwrap())
                    };
                    drop(c);
                }));
            }
            for h in hs {
                h.join().unwrap();
            }
            for k in 0..n {
                expect(Expect { name: format!("j{}-c{}", j, k), trace: tid, parent: Ok(rn.clone()), before_root: true, root: rn.clone(), forbidden: false });
            }
            let r = root.lock().unwrap().take().unwrap();
            if kind == 2 {
                std::thread::spawn(move || drop(r)).join().unwrap();
            } else {
                drop(r);
            }
            expect(Expect { name: rn.clone(), trace: tid, parent: Err(remote), before_root: true, root: rn.clone(), forbidden: false });
        }
    }
    JOBS_DONE.fetch_add(1, Ordering::SeqCst);
}

fn main() {
    let v: Vec<String> = std::env::args().collect();
    let mut seed = 1u64;
    let mut out = "/dev/stdout".to_string();
    let mut cancelable = false;
    let mut jobs = 3000usize;
    let mut workers = 8usize;
    let mut interval_us = 0u64;
    let mut time_limit = 20.0f64;
    let mut fillers = 0usize;
    let mut i = 1;
    while i + 1 < v.len() {
        match v[i].as_str() {
            "--seed" => seed = v[i + 1].parse().unwrap_or(1),
            "--out" => out = v[i + 1].clone(),
            "--config" => cancelable = v[i + 1] == "cancelable",
            "--jobs" => jobs = v[i + 1].parse().unwrap_or(3000),
            "--workers" => workers = v[i + 1].parse().unwrap_or(8),
            "--interval-us" => interval_us = v[i + 1].parse().unwrap_or(0),
            "--time-limit" => time_limit = v[i + 1].parse().unwrap_or(20.0),
            "--fillers" => fillers = v[i + 1].parse().unwrap_or(0),
            _ => {}
        }
        i += 2;
    }
    let t0 = Instant::now();
    HOOK_RNG.store(seed | 1, Ordering::Relaxed);
    fastrace::verif::set_hook(Some(Arc::new(hook)));
    let rep = Rep::default();
    fastrace::set_reporter(rep.clone(), Config::default().cancelable(cancelable).report_interval(Duration::from_micros(interval_us)));

    // optional filler threads keep drains long (thousands of queued commands per cycle)
    let stop = Arc::new(AtomicBool::new(false));
    let mut filler_handles = vec![];
    for f in 0..fillers {
        let stop = stop.clone();
        filler_handles.push(std::thread::spawn(move || {
            FILLER.with(|f| f.set(true));
            // bounded traces: a root, a burst of events, finish (the events of an open span are
            // parked in the collector until it finishes, so one endless root would grow without bound)
            let mut k = 0u128;
            while !stop.load(Ordering::Relaxed) {
                let root = Span::root(format!("filler{}", f), SpanContext::new(TraceId(0xF111_0000 + ((f as u128) << 64) + k), SpanId(1)));
                k += 1;
                for _ in 0..2000 {
                    root.add_event(Event::new("f"));
                }
                if k % 7 == 0 {
                    root.cancel();
                }
                drop(root);
                std::thread::sleep(Duration::from_micros(300));
            }
            // let the ring drain before the thread exits: a commit parked when a thread exits with
            // a full ring may legitimately be lost
            wait_cycles(3);
            let last = Span::root(format!("filler{}", f), SpanContext::new(TraceId(0xF111_FFFF), SpanId(1)));
            drop(last);
            wait_cycles(2);
        }));
    }

    // coordinator: `workers` job runners pull job numbers
    let next = Arc::new(AtomicUsize::new(0));
    let mut runners = vec![];
    let (done_tx, done_rx) = mpsc::channel::<()>();
    for w in 0..workers {
        let next = next.clone();
        let done_tx = done_tx.clone();
        runners.push(std::thread::spawn(move || {
            loop {
                let j = next.fetch_add(1, Ordering::SeqCst);
                if j >= jobs || t0.elapsed().as_secs_f64() > time_limit {
                    break;
                }
                job(j, if cancelable { (j + w) % 4 } else { (j + w) % 3 }, cancelable, seed);
            }
            let _ = done_tx.send(());
        }));
    }
    drop(done_tx);
    for _ in 0..workers {
        let _ = done_rx.recv();
    }
    for r in runners {
        let _ = r.join();
    }
    stop.store(true, Ordering::SeqCst);
    for h in filler_handles {
        let _ = h.join();
    }
    DELAY_ON.store(false, Ordering::SeqCst);
    // delivery needs no further call: wait in collector cycles, never calling flush()
    let c0 = CYCLES_ENDED.load(Ordering::SeqCst);
    let tw = Instant::now();
    let mut bg_dead = false;
    while CYCLES_ENDED.load(Ordering::SeqCst) < c0 + 3 {
        if tw.elapsed() > Duration::from_secs(15) {
            bg_dead = true;
            break;
        }
        std::thread::sleep(Duration::from_millis(1));
    }
    let waited_cycles = CYCLES_ENDED.load(Ordering::SeqCst) - c0;

    // ---- oracles ----
    let mut violations: Vec<serde_json::Value> = vec![];
    let mut viol = |sig: &str, detail: String| {
        if violations.len() < 12 {
            violations.push(json!({"category": "Stress", "signature": sig, "detail": detail}));
        }
    };
    if bg_dead {
        viol("background-collector-not-running", format!("only {} collector cycles completed within 15 s after the last span finished, without any flush()", waited_cycles));
    }
    let exp = EXPECT.lock().unwrap().clone();
    let calls = rep.0.lock().unwrap();
    let mut seen: HashMap<String, Vec<(usize, &SpanRecord)>> = HashMap::new();
    let mut nrec = 0usize;
    for (ci, c) in calls.iter().enumerate() {
        for r in &c.records {
            nrec += 1;
            seen.entry(r.name.to_string()).or_default().push((ci, r));
        }
    }
    let full = FULL_PUSHES.load(Ordering::SeqCst);
    let mut missing = 0usize;
    let mut seen_cancelled = false;
    let mut dups = 0usize;
    let mut checked = 0usize;
    let names: HashSet<&str> = exp.iter().map(|e| e.name.as_str()).collect();
    for e in &exp {
        let got = seen.get(&e.name).map(|v| v.as_slice()).unwrap_or(&[]);
        checked += 1;
        if e.forbidden {
            if !got.is_empty() {
                seen_cancelled = true;
                viol("cancelled-delivered", format!("{:?} belongs to a cancelled trace but was delivered {} time(s)", e.name, got.len()));
            }
            continue;
        }
        if got.is_empty() {
            missing += 1;
            viol("missing-record", format!("{:?} (trace {:032x}) finished but was never delivered ({} cycles waited, no flush)", e.name, e.trace, waited_cycles));
            continue;
        }
        if got.len() > 1 {
            dups += 1;
            viol("duplicate-delivery", format!("{:?} delivered {} times", e.name, got.len()));
        }
        let (ci, r) = got[0];
        if r.trace_id.0 != e.trace {
            viol("wrong-trace-id", format!("{:?}: trace id {:032x}, expected {:032x}", e.name, r.trace_id.0, e.trace));
        }
        match &e.parent {
            Err(id) => {
                if r.parent_id.0 != *id {
                    viol("wrong-parent", format!("{:?}: parent id {:x}, expected remote {:x}", e.name, r.parent_id.0, id));
                }
            }
            Ok(pn) => {
                if let Some(p) = seen.get(pn).and_then(|v| v.first()) {
                    if r.parent_id != p.1.span_id {
                        viol("wrong-parent", format!("{:?}: parent id {:x}, expected {:x} ({})", e.name, r.parent_id.0, p.1.span_id.0, pn));
                    }
                }
            }
        }
        if cancelable {
            if let Some(rr) = seen.get(&e.root).and_then(|v| v.first()) {
                if rr.0 != ci {
                    viol("trace-split-across-calls", format!("{:?} was delivered in report call {} but its root {:?} in call {}", e.name, ci, e.root, rr.0));
                }
            }
        }
    }
    for (n, v) in &seen {
        if !names.contains(n.as_str()) && !n.starts_with("filler") {
            viol("unknown-record", format!("record {:?} ({} copies) was never finished by the workload", n, v.len()));
        }
    }
    drop(calls);
    // now flush: nothing new may appear for the expected names (no duplicates across calls)
    fastrace::flush();
    fastrace::flush();
    {
        let calls = rep.0.lock().unwrap();
        let mut count: HashMap<&str, usize> = HashMap::new();
        for c in calls.iter() {
            for r in &c.records {
                *count.entry(r.name.as_ref()).or_insert(0) += 1;
            }
        }
        for e in &exp {
            if e.forbidden {
                if count.get(e.name.as_str()).copied().unwrap_or(0) > 0 && !seen_cancelled {
                    viol("cancelled-delivered", format!("{:?} belongs to a cancelled trace but was delivered by a later flush()", e.name));
                }
                continue;
            }
            if count.get(e.name.as_str()).copied().unwrap_or(0) > 1 && dups == 0 {
                viol("duplicate-delivery", format!("{:?} delivered again by a later flush()", e.name));
            }
        }
    }
    // retained state
    let st = fastrace::verif::collector_stats();
    let live_expected = 0usize; // every job thread has exited; the main thread never traces
    if full == 0 && (!st.active_collect_ids.is_empty() || st.buffered_span_sets != 0 || st.danglings != 0 || st.scratch_len != 0 || st.receivers != live_expected) {
        viol("retained-state", format!("after {} traces and {} thread exits the collector retains {:?}", JOBS_DONE.load(Ordering::SeqCst), HITS[5].load(Ordering::SeqCst), st));
    }
    let inconclusive: Vec<String> = if full > 0 { vec![format!("{} pushes found the ring full: omissions would be permitted, run not decisive", full)] } else { vec![] };
    let doc = json!({
        "property": "stress",
        "engine": "stress",
        "config": if cancelable { "cancelable" } else { "default" },
        "seed": seed,
        "programs": JOBS_DONE.load(Ordering::SeqCst),
        "executions": JOBS_DONE.load(Ordering::SeqCst),
        "distinct_executions": JOBS_DONE.load(Ordering::SeqCst),
        "records_checked": nrec,
        "expected_spans": checked,
        "missing": missing,
        "duplicates": dups,
        "collector_cycles": CYCLES_ENDED.load(Ordering::SeqCst),
        "cycles_waited_without_flush": waited_cycles,
        "hook_hits": {
            "drain_passes": HITS[0].load(Ordering::SeqCst),
            "queue_drains": HITS[1].load(Ordering::SeqCst),
            "empty_pops": HITS[2].load(Ordering::SeqCst),
            "queue_registrations": HITS[3].load(Ordering::SeqCst),
            "registrations_while_a_drain_pass_was_running": REGISTERS_DURING_DRAIN.load(Ordering::SeqCst),
            "sends": HITS[4].load(Ordering::SeqCst),
            "thread_exits_with_queue": HITS[5].load(Ordering::SeqCst),
            "injected_delays": DELAYS.load(Ordering::SeqCst),
            "full_ring_pushes": full,
        },
        "violations": violations,
        "inconclusive": inconclusive,
        "known_findings": {},
        "samples": exp.iter().take(3).map(|e| format!("{:?}", e)).collect::<Vec<_>>(),
        "wall_s": t0.elapsed().as_secs_f64(),
    });
    std::fs::write(&out, serde_json::to_string_pretty(&doc).unwrap()).unwrap();
    std::process::exit(0);
}
