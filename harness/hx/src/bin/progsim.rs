//! progsim: random / template span-API programs executed against the real library under a
//! controlled scheduler, checked by the shadow-model oracles.  One process = one collector
//! configuration.  Prints a JSON summary to --out.

use std::collections::{BTreeMap, HashSet};
use std::time::{Duration, Instant};

use hx::exec::Engine;
use hx::gen::Gen;
use hx::oracle::{self, Cat, OracleCfg};
use hx::props;
use hx::rng::{fnv, Rng};
use hx::sched::*;
use hx::templates;
use serde_json::{json, Value};

struct Args {
    prop: String,
    mode: String,
    cancelable: bool,
    seed: u64,
    programs: usize,
    time_limit: f64,
    out: String,
    replay_dir: String,
    known: Vec<String>,
    replay: Option<String>,
    max_threads: usize,
}

fn parse_args() -> Args {
    let mut a = Args {
        prop: "C01".into(),
        mode: "placed".into(),
        cancelable: false,
        seed: 1,
        programs: 100,
        time_limit: 60.0,
        out: "/dev/stdout".into(),
        replay_dir: "/verif/replays".into(),
        known: vec![],
        replay: None,
        max_threads: 6,
    };
    let v: Vec<String> = std::env::args().collect();
    let mut i = 1;
    while i < v.len() {
        let val = v.get(i + 1).cloned().unwrap_or_default();
        match v[i].as_str() {
            "--prop" => a.prop = val,
            "--mode" => a.mode = val,
            "--config" => a.cancelable = val == "cancelable",
            "--seed" => a.seed = val.parse().unwrap_or(1),
            "--programs" => a.programs = val.parse().unwrap_or(100),
            "--time-limit" => a.time_limit = val.parse().unwrap_or(60.0),
            "--out" => a.out = val,
            "--replay-dir" => a.replay_dir = val,
            "--known" => a.known = val.split(',').filter(|s| !s.is_empty()).map(|s| s.to_string()).collect(),
            "--replay" => a.replay = Some(val),
            _ => {
                i += 1;
                continue;
            }
        }
        i += 2;
    }
    a
}

/// Program number `k` of a shard and its run options: a function of (property, config, seed, k) only.
fn random_program(args: &Args, k: usize, prng: &mut Rng, mode: SchedMode) -> (Program, RunOpts) {
    let pf = props::profile_for(&args.prop, args.cancelable, prng);
    let prog = if (args.prop == "C18" && k % 100 == 50) || (args.prop == "C17" && k % 500 == 250) {
        templates::long_local_program(args.cancelable, prng)
    } else if args.prop == "C09" || (args.prop == "C08" && k % 12 == 11) {
        // C08: what the collector retains is also judged after queue-full episodes
        Gen::new(prng, &pf, k as u64).generate_overload()
    } else {
        Gen::new(prng, &pf, k as u64).generate()
    };
    let opts = RunOpts { max_cycles: 4, max_steps: 60, park_in_stepped: prng.chance(1, 3), no_flush: mode == SchedMode::Stepped, ..RunOpts::default() };
    (prog, opts)
}

fn ops_text(prog: &Program) -> Vec<String> {
    prog.ops.iter().enumerate().map(|(i, (t, op))| format!("{} T{} {:?}", i, t, op)).collect()
}

fn main() {
    let mut args = parse_args();
    // --replay <file>: re-execute the program and the scheduler decisions a replay file records
    let replay_doc: Option<Value> = args.replay.as_ref().map(|f| serde_json::from_str(&std::fs::read_to_string(f).expect("replay file")).expect("replay json"));
    if let Some(d) = &replay_doc {
        args.prop = d["property"].as_str().unwrap_or("").to_string();
        args.mode = d["mode"].as_str().unwrap_or("placed").to_string();
        args.cancelable = d["config"].as_str() == Some("cancelable");
        args.seed = d["seed"].as_u64().unwrap_or(0);
        args.replay_dir = std::env::temp_dir().join("hx-replay-out").to_string_lossy().to_string();
    }
    let t_start = Instant::now();
    let mut eng = Engine::start(args.max_threads, args.cancelable, Duration::from_secs(3600));
    let cats: HashSet<Cat> = props::cats_for(&args.prop, args.cancelable).into_iter().collect();
    let mode = if args.mode == "stepped" || args.mode == "templates" { SchedMode::Stepped } else { SchedMode::Placed };

    let mut collect_base = 0usize;
    let mut executions = 0usize;
    let mut programs = 0usize;
    let mut ops_by_kind: BTreeMap<String, usize> = BTreeMap::new();
    let mut totals = oracle::Counters::default();
    let mut distinct: HashSet<u64> = HashSet::new();
    let mut violations: Vec<Value> = vec![];
    let mut known_hits: BTreeMap<String, usize> = BTreeMap::new();
    let mut other: BTreeMap<String, usize> = BTreeMap::new();
    let mut inconclusive: Vec<String> = vec![];
    let mut samples: Vec<Value> = vec![];
    let mut cycles = 0usize;
    let mut steps = 0usize;
    let mut mid_cycle_ops = 0usize;
    let mut hook_hits: BTreeMap<String, usize> = BTreeMap::new();
    let mut windows: BTreeMap<String, usize> = BTreeMap::new();
    let mut template_stats: Vec<Value> = vec![];
    let mut stop = false;
    let fatal = std::cell::Cell::new(false);

    let mut handle = |prog: &Program,
                      ex: Result<Execution, hx::exec::EngineError>,
                      strict: bool,
                      k: usize,
                      label: &str,
                      collect_base: &mut usize,
                      samples: &mut Vec<Value>,
                      violations: &mut Vec<Value>|
     -> bool {
        let ex = match ex {
            Ok(e) => e,
            Err(e) => {
                if cats.contains(&Cat::Panic) {
                    // C07: a tracing call that does not return is the violation itself
                    let path = format!("{}/{}-{}-s{}-p{}-blocked.json", args.replay_dir, args.prop, if args.cancelable { "cancelable" } else { "default" }, args.seed, k);
                    let _ = std::fs::create_dir_all(&args.replay_dir);
                    let doc = json!({"property": args.prop, "engine": "progsim", "mode": args.mode, "seed": args.seed, "program": k, "ops": ops_text(prog), "error": format!("{:?}", e)});
                    let _ = std::fs::write(&path, serde_json::to_string_pretty(&doc).unwrap());
                    violations.push(json!({"category": "Blocked", "signature": "call-did-not-return", "detail": format!("program {} ({}): a logical thread did not come back within the watchdog: {:?}", k, label, e), "replay": path}));
                    fatal.set(true);
                    return true;
                }
                inconclusive.push(format!("program {} ({}): {:?}", k, label, e));
                fatal.set(true);
                return false;
            }
        };
        executions += 1;
        cycles += ex.cycles;
        steps += ex.steps;
        mid_cycle_ops += ex.mid_cycle_ops;
        // windows named in the properties, as actually observed in this execution
        {
            use fastrace::verif::Point;
            let mut last_collector: Option<Point> = None;
            let mut collector_open = false;
            for h in &ex.hooks {
                if h.lt == hx::exec::LT_COLLECTOR || h.lt == hx::exec::LT_NONE || h.lt == hx::exec::LT_MAIN {
                    match h.point {
                        Point::CycleBegin => collector_open = true,
                        Point::CycleEnd => collector_open = false,
                        Point::PassBegin { pass: 2 } => *windows.entry("cycles_with_a_second_drain_pass".into()).or_insert(0) += 1,
                        _ => {}
                    }
                    last_collector = Some(h.point);
                } else {
                    match (h.point, last_collector) {
                        (Point::SenderDrop { q, .. }, Some(Point::RecvEmpty { q: q2 })) if q == q2 && collector_open => {
                            *windows.entry("thread_exits_between_empty_pop_and_abandon_check_of_its_queue".into()).or_insert(0) += 1
                        }
                        (Point::SenderDrop { .. }, _) if collector_open => *windows.entry("thread_exits_during_an_open_cycle".into()).or_insert(0) += 1,
                        (Point::Push { replay: true, .. }, _) => *windows.entry("replayed_parked_signals".into()).or_insert(0) += 1,
                        (Point::Park { .. }, _) => *windows.entry("parked_signals".into()).or_insert(0) += 1,
                        (Point::Push { full: true, force: false, .. }, _) => *windows.entry("pushes_onto_a_full_ring".into()).or_insert(0) += 1,
                        (Point::Send { kind: 2, .. }, _) if collector_open => *windows.entry("commits_sent_during_an_open_cycle".into()).or_insert(0) += 1,
                        (Point::Send { kind: 1, .. }, _) if collector_open => *windows.entry("cancels_sent_during_an_open_cycle".into()).or_insert(0) += 1,
                        (Point::Send { kind: 0, .. }, _) if collector_open => *windows.entry("starts_sent_during_an_open_cycle".into()).or_insert(0) += 1,
                        _ => {}
                    }
                }
            }
        }
        for h in &ex.hooks {
            let n = format!("{:?}", h.point);
            let n = n.split(|c| c == ' ' || c == '{').next().unwrap_or("").to_string();
            *hook_hits.entry(n).or_insert(0) += 1;
        }
        let cfg = OracleCfg {
            cancelable: args.cancelable,
            strict_calls: strict,
            check_stats: true,
            collect_base: *collect_base,
            frame_pairs: prog.frame_pairs.clone(),
            timing: cats.contains(&Cat::Timing),
        };
        let oo = oracle::check(prog, &ex, &cfg);
        *collect_base += prog.model.sampled_roots;
        let c = &oo.counters;
        totals.records += c.records;
        totals.expected_required += c.expected_required;
        totals.expected_optional += c.expected_optional;
        totals.expected_forbidden += c.expected_forbidden;
        totals.parent_checks += c.parent_checks;
        totals.attach_checks += c.attach_checks;
        totals.ctx_checks += c.ctx_checks;
        totals.frame_checks += c.frame_checks;
        totals.copy_checks += c.copy_checks;
        totals.timing_checks += c.timing_checks;
        totals.timing_long += c.timing_long;
        totals.timing_long_local += c.timing_long_local;
        totals.call_checks += c.call_checks;
        totals.batch_checks += c.batch_checks;
        totals.lazy_checks += c.lazy_checks;
        totals.possibly_dropped += c.possibly_dropped;
        totals.traces_multi_cycle += c.traces_multi_cycle;
        // distinct executions: program shape x decisions
        let shape: String = prog.ops.iter().map(|(t, o)| format!("{}{}", t, o.kind_name())).collect::<Vec<_>>().join(",");
        let dec: Vec<u8> = ex.decisions.iter().map(|d| d.2).collect();
        // non-trivial: something was delivered and checked, and at least one collector cycle fell
        // inside the program (not only the closing ones)
        if c.records > 0 && ex.cycles >= 1 {
            distinct.insert(fnv(shape.as_bytes()) ^ fnv(&dec).rotate_left(17));
        }
        let mut bad = false;
        let mut first_detail: Option<Value> = None;
        for vi in &oo.violations {
            if args.known.contains(&vi.sig) {
                *known_hits.entry(vi.sig.clone()).or_insert(0) += 1;
                continue;
            }
            if vi.cat == Cat::Panic && !cats.contains(&Cat::Panic) {
                inconclusive.push(format!("program {} ({}): {}", k, label, vi.detail));
                continue;
            }
            if !cats.contains(&vi.cat) {
                *other.entry(format!("{:?}", vi.cat)).or_insert(0) += 1;
                continue;
            }
            bad = true;
            if first_detail.is_none() {
                first_detail = Some(json!({"category": format!("{:?}", vi.cat), "signature": vi.sig, "detail": vi.detail}));
            }
        }
        if bad && violations.len() < 5 {
            let all: Vec<Value> = oo
                .violations
                .iter()
                .filter(|vi| cats.contains(&vi.cat) && !args.known.contains(&vi.sig))
                .take(12)
                .map(|vi| json!({"category": format!("{:?}", vi.cat), "signature": vi.sig, "detail": vi.detail}))
                .collect();
            let path = format!("{}/{}-{}-s{}-p{}-{}.json", args.replay_dir, args.prop, if args.cancelable { "cancelable" } else { "default" }, args.seed, k, label.replace(|c: char| !c.is_alphanumeric(), "_"));
            let _ = std::fs::create_dir_all(&args.replay_dir);
            let reports: Vec<Value> = ex
                .reports
                .iter()
                .map(|c| {
                    json!({"pos": format!("{:?}", ex.pos.get(c.pos as usize)), "records": c.records.iter().map(|r| format!("{:?}", r)).collect::<Vec<_>>()})
                })
                .collect();
            let doc = json!({
                "property": args.prop,
                "engine": "progsim",
                "mode": args.mode,
                "config": if args.cancelable { "cancelable" } else { "default" },
                "seed": args.seed,
                "program": k,
                "label": label,
                "threads": prog.nthreads,
                "ops": ops_text(prog),
                "decisions": ex.decisions.iter().map(|d| d.2).collect::<Vec<u8>>(),
                "build": if cfg!(debug_assertions) { "debug" } else { "release" },
                "violations": all,
                "reports": reports,
                "hooks": ex.hooks.iter().take(400).map(|h| format!("pos{} lt{} {:?}", h.pos, h.lt as isize, h.point)).collect::<Vec<_>>(),
                "stats": format!("{:?}", ex.stats),
            });
            let _ = std::fs::write(&path, serde_json::to_string_pretty(&doc).unwrap());
            let mut d = first_detail.unwrap();
            d["replay"] = json!(path);
            violations.push(d);
        } else if bad {
            violations.push(first_detail.unwrap());
        }
        if samples.len() < 3 && !bad {
            samples.push(json!({
                "label": label,
                "threads": prog.nthreads,
                "ops": ops_text(prog),
                "decisions": ex.decisions.iter().map(|d| d.2).collect::<Vec<u8>>(),
                "report_calls": ex.reports.iter().map(|c| c.records.len()).collect::<Vec<_>>(),
            }));
        }
        bad
    };

    if let Some(d) = &replay_doc {
        let k = d["program"].as_u64().unwrap_or(0) as usize;
        let label = d["label"].as_str().unwrap_or("random").to_string();
        let script: Vec<u8> = d["decisions"].as_array().map(|a| a.iter().map(|x| x.as_u64().unwrap_or(0) as u8).collect()).unwrap_or_default();
        let mut ch = ScriptChooser::new(script);
        if label == "random" {
            let mut prng = Rng::new(args.seed.wrapping_mul(0x9E37_79B9_7F4A_7C15) ^ (k as u64).wrapping_mul(0xD1B5_4A32_D192_ED03));
            let (prog, opts) = random_program(&args, k, &mut prng, mode);
            let ex = run_program(&mut eng, &prog, mode, &mut ch, opts);
            programs += 1;
            handle(&prog, ex, mode == SchedMode::Placed, k, "random", &mut collect_base, &mut samples, &mut violations);
        } else {
            let list = templates::all(&args.prop, args.cancelable);
            match list.iter().find(|t| t.name == label) {
                Some(tpl) => {
                    let mut opts = tpl.opts.clone();
                    if tpl.mode == SchedMode::Placed {
                        opts.cyield = 0;
                    }
                    let prog = (tpl.build)();
                    let ex = run_program(&mut eng, &prog, tpl.mode, &mut ch, opts);
                    programs += 1;
                    handle(&prog, ex, false, k, tpl.name, &mut collect_base, &mut samples, &mut violations);
                }
                None => inconclusive.push(format!("replay: no template named {:?} for {}", label, args.prop)),
            }
        }
    } else if args.mode == "templates" {
        let list = templates::all(&args.prop, args.cancelable);
        let share = args.time_limit / list.len().max(1) as f64;
        for (ti, tpl) in list.iter().enumerate() {
            let t_tpl = Instant::now();
            // depth-first enumeration of all scheduler decisions by re-execution; when the space
            // is too large for the time share, the rest of the share samples schedules at random
            let mut script: Vec<u8> = vec![];
            let mut runs = 0usize;
            let mut exhaustive = true;
            let dfs_budget = tpl.budget;
            let mut opts = tpl.opts.clone();
            if tpl.mode == SchedMode::Placed {
                opts.cyield = 0;
            }
            loop {
                if t_tpl.elapsed().as_secs_f64() > share * 0.6 {
                    exhaustive = false;
                    break;
                }
                let prog = (tpl.build)();
                let mut ch = ScriptChooser::new(script.clone());
                let ex = run_program(&mut eng, &prog, tpl.mode, &mut ch, opts.clone());
                for (_, op) in &prog.ops {
                    *ops_by_kind.entry(op.kind_name().to_string()).or_insert(0) += 1;
                }
                runs += 1;
                handle(&prog, ex, false, ti, tpl.name, &mut collect_base, &mut samples, &mut violations);
                // next script: increment the last decision that still has an untried option
                let asked = ch.asked.clone();
                let mut next: Option<Vec<u8>> = None;
                for i in (0..asked.len()).rev() {
                    let (_, n, c) = asked[i];
                    if c + 1 < n {
                        let mut s: Vec<u8> = asked[..i].iter().map(|a| a.2).collect();
                        s.push(c + 1);
                        next = Some(s);
                        break;
                    }
                }
                match next {
                    Some(s) => script = s,
                    None => break,
                }
                if runs >= dfs_budget {
                    exhaustive = false;
                    break;
                }
            }
            let mut sampled = 0usize;
            if !exhaustive {
                let mut prng = Rng::new(args.seed ^ (ti as u64) << 32);
                while t_tpl.elapsed().as_secs_f64() < share {
                    let prog = (tpl.build)();
                    let mut ch = RandomChooser::new(prng.fork(sampled as u64));
                    ch.p_step = 350 + (sampled as u32 * 37) % 400;
                    ch.p_cycle = 100 + (sampled as u32 * 53) % 500;
                    ch.p_at_send = ch.p_cycle;
                    ch.p_flush = 0;
                    ch.p_final_flush = 0;
                    let ex = run_program(&mut eng, &prog, tpl.mode, &mut ch, opts.clone());
                    sampled += 1;
                    handle(&prog, ex, false, ti, tpl.name, &mut collect_base, &mut samples, &mut violations);
                }
            }
            programs += 1;
            template_stats.push(json!({"template": tpl.name, "schedules_enumerated": runs, "exhaustive": exhaustive, "schedules_sampled": sampled}));
        }
        let _ = &mut stop;
    } else {
        for k in 0..args.programs {
            if t_start.elapsed().as_secs_f64() > args.time_limit || fatal.get() {
                break;
            }
            eprintln!("P {}", k);
            let mut prng = Rng::new(args.seed.wrapping_mul(0x9E37_79B9_7F4A_7C15) ^ (k as u64).wrapping_mul(0xD1B5_4A32_D192_ED03));
            let (prog, opts) = random_program(&args, k, &mut prng, mode);
            if std::env::var("HX_DUMP_OPS").is_ok() {
                for l in ops_text(&prog) {
                    let l: String = l.chars().take(160).collect();
                    eprintln!("  OP {}", l);
                }
            }
            for (_, op) in &prog.ops {
                *ops_by_kind.entry(op.kind_name().to_string()).or_insert(0) += 1;
            }
            let mut ch = RandomChooser::new(prng.fork(8));
            let ex = run_program(&mut eng, &prog, mode, &mut ch, opts);
            programs += 1;
            handle(&prog, ex, mode == SchedMode::Placed, k, "random", &mut collect_base, &mut samples, &mut violations);
        }
    }
    let doc = json!({
        "property": args.prop,
        "engine": "progsim",
        "mode": args.mode,
        "config": if args.cancelable { "cancelable" } else { "default" },
        "seed": args.seed,
        "programs": programs,
        "executions": executions,
        "distinct_executions": distinct.len(),
        "ops_by_kind": ops_by_kind,
        "collector_cycles": cycles,
        "collector_steps": steps,
        "worker_ops_during_open_cycle": mid_cycle_ops,
        "hook_hits": hook_hits,
        "windows_observed": windows,
        "records_checked": totals.records,
        "counters": {
            "expected_required": totals.expected_required,
            "expected_optional": totals.expected_optional,
            "expected_forbidden": totals.expected_forbidden,
            "parent_checks": totals.parent_checks,
            "attachment_checks": totals.attach_checks,
            "context_checks": totals.ctx_checks,
            "frame_checks": totals.frame_checks,
            "copy_checks": totals.copy_checks,
            "timing_checks": totals.timing_checks,
            "timing_long": totals.timing_long,
            "timing_long_local": totals.timing_long_local,
            "delivery_call_checks": totals.call_checks,
            "batch_checks": totals.batch_checks,
            "closure_checks": totals.lazy_checks,
            "possibly_dropped_sends": totals.possibly_dropped,
            "traces_delivered_over_several_calls": totals.traces_multi_cycle,
        },
        "templates": template_stats,
        "violations": violations,
        "known_findings": known_hits,
        "other_property_anomalies": other,
        "inconclusive": inconclusive,
        "samples": samples,
        "wall_s": t_start.elapsed().as_secs_f64(),
    });
    std::fs::write(&args.out, serde_json::to_string_pretty(&doc).unwrap()).expect("write out");
    // leave without joining the parked threads
    std::process::exit(0);
}
