//! Hand-built minimal programs for the windows named in the properties. Every scheduler decision
//! of a template (advance the collector to its next instrumentation point, or let the program
//! continue) is enumerated by re-execution; the threads are fresh for every execution, so the
//! order in which the collector drains the queues is the order of the thread numbers used.

use crate::exec::YIELD_DRAIN;
use crate::gen::*;
use crate::ops::*;
use crate::sched::*;

pub struct Template {
    pub name: &'static str,
    pub build: Box<dyn Fn() -> Program>,
    pub mode: SchedMode,
    pub opts: RunOpts,
    pub budget: usize,
}

/// Small builder over `Program::push` with fresh labels.
pub struct B {
    pub p: Program,
}

impl B {
    pub fn new(nthreads: usize, cancelable: bool) -> B {
        set_str_mode(0);
        B { p: Program::new(0, nthreads, cancelable, 0, new_local_label() + 900_000_000) }
    }
    pub fn root(&mut self, t: usize) -> u32 {
        self.root_s(t, true)
    }
    pub fn root_s(&mut self, t: usize, sampled: bool) -> u32 {
        let l = new_span_label();
        let tid = ((l as u128) << 64) | 0xA5A5_0000_0000_0000_0000u128 | l as u128;
        self.p.push(t, Op::Root { l, trace_id: tid, parent: 0x7000_0000 + l as u64, sampled, np: 0, k0: 0 });
        l
    }
    pub fn child(&mut self, t: usize, parent: u32) -> u32 {
        let l = new_span_label();
        self.p.push(t, Op::Child { l, parents: vec![parent], single: true, np: 0, k0: 0 });
        l
    }
    pub fn child_multi(&mut self, t: usize, parents: &[u32]) -> u32 {
        let l = new_span_label();
        self.p.push(t, Op::Child { l, parents: parents.to_vec(), single: false, np: 0, k0: 0 });
        l
    }
    pub fn finish(&mut self, t: usize, l: u32) {
        self.p.push(t, Op::Finish { span: l });
    }
    pub fn cancel(&mut self, t: usize, l: u32) {
        self.p.push(t, Op::Cancel { span: l });
    }
    pub fn exit(&mut self, t: usize) {
        self.p.push(t, Op::Exit);
    }
    pub fn guard(&mut self, t: usize, l: u32) {
        self.p.push(t, Op::Guard { span: l });
    }
    pub fn pop(&mut self, t: usize) {
        self.p.push(t, Op::Pop);
    }
    pub fn lenter(&mut self, t: usize) -> u32 {
        let l = new_local_label();
        self.p.push(t, Op::LEnter { l, np: 0, k0: 0 });
        l
    }
    pub fn add_props(&mut self, t: usize, span: u32) {
        self.p.push(t, Op::AddProps { span, n: 2, k0: new_keys(2) });
    }
    pub fn add_event(&mut self, t: usize, span: u32) {
        self.p.push(t, Op::AddEvent { span, e: new_event(), np: 1, k0: new_keys(1) });
    }
    pub fn ladd_props(&mut self, t: usize) {
        self.p.push(t, Op::LAddProps { n: 1, k0: new_keys(1) });
    }
    pub fn ladd_event(&mut self, t: usize) {
        self.p.push(t, Op::LAddEvent { e: new_event(), np: 0, k0: 0 });
    }
    pub fn fill(&mut self, t: usize, span: u32, n: u32) {
        self.p.push(t, Op::Fill { span, n });
    }
    pub fn op(&mut self, t: usize, op: Op) {
        self.p.push(t, op);
    }
    pub fn done(self) -> Program {
        self.p
    }
}

/// A directed program for the timing oracle: local spans (under a span scope, or captured by a
/// local collector and still open at the collect) whose durations exceed one second, with
/// events, short siblings and a thread-safe child alongside.
pub fn long_local_program(cancelable: bool, rng: &mut crate::rng::Rng) -> Program {
    let mut b = B::new(2, cancelable);
    let long = |rng: &mut crate::rng::Rng| Op::Sleep { us: rng.range(1_000_200, 1_200_000) as u32 };
    let short = |rng: &mut crate::rng::Rng| Op::Sleep { us: rng.range(50, 900) as u32 };
    let r = b.root(0);
    if rng.chance(1, 2) {
        b.guard(0, r);
        let _a = b.lenter(0);
        b.ladd_event(0);
        if rng.chance(1, 2) {
            let _b = b.lenter(0);
            b.ladd_event(0);
            b.op(0, long(rng));
            b.ladd_event(0);
            b.pop(0);
        } else {
            b.op(0, long(rng));
        }
        b.ladd_event(0);
        let _c = b.lenter(0);
        b.op(0, short(rng));
        b.ladd_event(0);
        b.pop(0);
        let k = b.child(1, r);
        b.op(1, Op::Elapsed { span: r });
        b.finish(1, k);
        b.pop(0);
        b.pop(0);
    } else {
        let set = new_local_label();
        b.op(0, Op::LcStart { set });
        let _d = b.lenter(0);
        b.ladd_event(0);
        let _e = b.lenter(0);
        b.op(0, short(rng));
        b.pop(0);
        if rng.chance(1, 2) {
            let _f = b.lenter(0);
        }
        b.op(0, long(rng));
        b.ladd_event(0);
        // the spans still open end at the collect
        b.op(0, Op::LcCollectOpen);
        let p2 = b.root(1);
        b.op(0, Op::PushSet { set, parents: vec![r, p2] });
        b.op(0, Op::ToRecords { set, trace_id: 0x77u128 << 64 | 5, span_id: 0x99 });
        b.finish(1, p2);
    }
    b.op(0, Op::Elapsed { span: r });
    b.finish(0, r);
    b.done()
}

fn stepped(max_cycles: usize, park: bool) -> RunOpts {
    RunOpts {
        max_cycles,
        max_steps: 200,
        park_in_stepped: park,
        no_flush: true,
        cyield: YIELD_DRAIN,
        park_replay: false,
        fresh_threads: true,
    }
}

fn tpl(name: &'static str, opts: RunOpts, budget: usize, f: impl Fn() -> Program + 'static) -> Template {
    let mode = if opts.cyield == PLACED { SchedMode::Placed } else { SchedMode::Stepped };
    Template { name, build: Box::new(f), mode, opts, budget }
}

/// marker value of `cyield` for templates enumerated with whole cycles at every operation / send
const PLACED: u64 = u64::MAX - 1;

/// whole cycles (or none) before every operation and at every queue operation inside operations
fn placed() -> RunOpts {
    RunOpts { max_cycles: 0, max_steps: 0, park_in_stepped: true, no_flush: true, cyield: PLACED, park_replay: false, fresh_threads: false }
}

/// local steps for the final poll of an adapter: a local span, a local event, a local property
fn final_poll_steps() -> Vec<Op> {
    vec![
        Op::LEnter { l: new_local_label(), np: 0, k0: 0 },
        Op::Pop,
        Op::LAddEvent { e: new_event(), np: 0, k0: 0 },
        Op::LAddProps { n: 1, k0: new_keys(1) },
    ]
}

pub fn all(prop: &str, cancelable: bool) -> Vec<Template> {
    let c = cancelable;
    let mut v: Vec<Template> = vec![];
    let want = |names: &[&str]| names.contains(&prop);

    if want(&["C01", "C08", "C03"]) {
        // a thread finishes a span and exits at once: the collector may be anywhere, in particular
        // between the failed pop and the abandonment check of that thread's queue
        for (a, b, nm) in [(0usize, 1usize, "exit-after-last-push/root-first"), (1, 0, "exit-after-last-push/child-first")] {
            v.push(tpl(nm, stepped(1, false), 40_000, move || {
                let mut p = B::new(2, c);
                let r = p.root(a);
                let ch = p.child(b, r);
                p.finish(b, ch);
                p.exit(b);
                p.finish(a, r);
                p.done()
            }));
        }
        v.push(tpl("root-finishes-and-thread-exits", stepped(1, false), 40_000, move || {
            let mut p = B::new(2, c);
            let r = p.root(1);
            let ch = p.child(0, r);
            p.finish(0, ch);
            p.finish(1, r);
            p.exit(1);
            p.done()
        }));
    }
    if want(&["C01", "C03", "C08", "C04"]) {
        // a child finishes on B, then the root finishes on A: the collector may sit between the two
        // queues in either drain order
        for (a, b, nm) in [(0usize, 1usize, "child-on-later-queue-then-root"), (1, 0, "child-on-earlier-queue-then-root")] {
            v.push(tpl(nm, stepped(2, false), 60_000, move || {
                let mut p = B::new(2, c);
                let r = p.root(a);
                let ch = p.child(b, r);
                p.finish(b, ch);
                p.finish(a, r);
                p.done()
            }));
        }
        // root created on A, finished on B: start and commit travel through different queues
        for (a, b, nm) in [(0usize, 1usize, "root-created-A-finished-B/A-first"), (1, 0, "root-created-A-finished-B/B-first")] {
            v.push(tpl(nm, stepped(2, false), 60_000, move || {
                let mut p = B::new(2, c);
                let r = p.root(a);
                p.finish(b, r);
                p.done()
            }));
        }
        v.push(tpl("children-on-two-other-threads", stepped(1, false), 60_000, move || {
            let mut p = B::new(3, c);
            let r = p.root(1);
            let c1 = p.child(0, r);
            let c2 = p.child(2, r);
            p.finish(2, c2);
            p.finish(0, c1);
            p.finish(1, r);
            p.done()
        }));
    }
    if want(&["C04", "C08"]) {
        // cancel on A, finish on B
        for (a, b, nm) in [(0usize, 1usize, "cancel-on-A-finish-on-B/A-first"), (1, 0, "cancel-on-A-finish-on-B/B-first")] {
            v.push(tpl(nm, stepped(2, false), 60_000, move || {
                let mut p = B::new(2, c);
                let r = p.root(a);
                let ch = p.child(a, r);
                p.finish(a, ch);
                p.cancel(a, r);
                p.finish(b, r);
                p.done()
            }));
        }
        // root created on C, cancelled on A, finished on B
        v.push(tpl("start-cancel-finish-on-three-threads", stepped(2, false), 80_000, move || {
            let mut p = B::new(3, c);
            let r = p.root(2);
            p.cancel(0, r);
            p.finish(1, r);
            p.done()
        }));
        // a cancelled trace shares a multi-parent span with a live trace
        v.push(tpl("cancelled-trace-shares-span", stepped(2, false), 40_000, move || {
            let mut p = B::new(2, c);
            let r1 = p.root(0);
            let r2 = p.root(1);
            let sh = p.child_multi(1, &[r1, r2]);
            p.finish(1, sh);
            p.cancel(0, r1);
            p.finish(0, r1);
            p.finish(1, r2);
            p.done()
        }));
        // ... and the live trace starts late: its root is created on a queue the running cycle has
        // already drained, the shared span finishes on a queue drained afterwards, the cancel of the
        // other trace was applied a cycle before
        v.push(tpl("cancelled-trace-shares-span/live-trace-starts-late", stepped(3, false), 80_000, move || {
            let mut p = B::new(2, c);
            let r1 = p.root(0);
            p.cancel(0, r1);
            let r2 = p.root(0);
            let sh = p.child_multi(1, &[r1, r2]);
            p.finish(1, sh);
            p.finish(0, r2);
            p.finish(0, r1);
            p.done()
        }));
        // cancel() without cancelable: attachments parked before and after must survive
        v.push(tpl("cancel-between-attachments", stepped(3, true), 40_000, move || {
            let mut p = B::new(1, c);
            let r = p.root(0);
            p.add_props(0, r);
            p.cancel(0, r);
            p.add_event(0, r);
            p.finish(0, r);
            p.done()
        }));
    }
    if want(&["C04", "C09"]) {
        // cancel + finish while the ring is full: both signals are parked, then replayed
        let mut o = stepped(3, false);
        o.park_replay = true;
        o.park_in_stepped = true;
        o.cyield = 32; // whole drains; stop only before the report
        v.push(tpl("cancel-and-finish-with-full-ring", o, 4_000, move || {
            let mut p = B::new(1, c);
            let f = p.root(0);
            let r = p.root(0);
            let ch = p.child(0, r);
            p.finish(0, ch);
            p.fill(0, f, 10_300);
            p.cancel(0, r);
            p.finish(0, r);
            // the next commands replay the parked ones
            p.add_event(0, f);
            p.add_event(0, f);
            p.finish(0, f);
            // parked signals are replayed by the thread's next command: drain, then send once more
            let at = p.p.ops.len();
            p.p.drain_points.push(at);
            let u = p.root_s(0, false);
            p.finish(0, u);
            p.done()
        }));
    }
    if want(&["C09", "C10"]) {
        // the scope's span limit is hit by local spans entered directly in the scope (no local span
        // open): the skipped ones must leave the scope's context as it was
        let mut o = placed();
        o.fresh_threads = false;
        v.push(tpl("scope-over-the-span-limit/at-top-level", o, 3, move || {
            let mut p = B::new(1, c);
            let r = p.root(0);
            p.guard(0, r);
            for i in 0..10_300u32 {
                p.lenter(0);
                p.pop(0);
                if i % 1500 == 0 || i >= 10_236 && i <= 10_244 {
                    p.op(0, Op::CurLocal);
                }
            }
            p.op(0, Op::CurLocal);
            let ch = new_span_label();
            p.op(0, Op::ChildLocal { l: ch, np: 0, k0: 0 });
            p.op(0, Op::FromSpan { span: ch });
            p.lenter(0);
            p.op(0, Op::CurLocal);
            p.ladd_event(0);
            p.pop(0);
            p.ladd_props(0);
            p.op(0, Op::CurLocal);
            p.pop(0);
            p.op(0, Op::CurLocal);
            p.finish(0, ch);
            p.finish(0, r);
            p.done()
        }));
    }
    if want(&["C09", "C06"]) {
        // local limits: the first 10240 entries of a scope are recorded with the right parents,
        // the rest is skipped; a 4097th nested scope is not registered and harms nothing
        let mut o = placed();
        o.fresh_threads = false;
        v.push(tpl("scope-over-the-span-limit", o.clone(), 3, move || {
            let mut p = B::new(1, c);
            let r = p.root(0);
            p.guard(0, r);
            let outer = p.lenter(0);
            let _ = outer;
            for i in 0..10_300u32 {
                if (10_225..10_250).contains(&i) {
                    // builder-style properties on the spans around the last free slot
                    let l = new_local_label();
                    p.op(0, Op::LEnter { l, np: 1, k0: new_keys(1) });
                } else {
                    p.lenter(0);
                }
                if i % 997 == 0 {
                    p.ladd_event(0);
                }
                p.pop(0);
            }
            p.ladd_event(0);
            p.ladd_props(0);
            // decorating the (long recorded, still open) outer span needs no free slot
            p.op(0, Op::LWithProps { n: 1, k0: new_keys(1) });
            p.pop(0);
            p.lenter(0);
            p.pop(0);
            p.pop(0);
            p.finish(0, r);
            p.done()
        }));
        v.push(tpl("more-than-4096-nested-scopes", o, 3, move || {
            let mut p = B::new(1, c);
            let r = p.root(0);
            let mut spans = vec![];
            for i in 0..4_100u32 {
                let s = p.child(0, r);
                spans.push(s);
                p.guard(0, s);
                if i % 700 == 0 || i >= 4_094 {
                    p.lenter(0);
                    p.ladd_event(0);
                    p.pop(0);
                    p.op(0, Op::CurLocal);
                }
            }
            for _ in 0..4_100 {
                p.pop(0);
            }
            for s in spans {
                p.finish(0, s);
            }
            p.finish(0, r);
            p.done()
        }));
    }
    if want(&["C08"]) && !c {
        // tracing is initialised a second time while a cycle has kept a commit back (first seen in
        // its second drain pass): whatever the library does with the old collector's state, no
        // entry of the finished trace may stay behind
        v.push(tpl("set_reporter-again-while-a-commit-is-kept-back", stepped(3, false), 60_000, move || {
            let mut p = B::new(2, c);
            let r = p.root(0);
            let ch = p.child(1, r);
            p.finish(1, ch);
            let x = p.root(0);
            p.finish(0, x);
            p.finish(1, r);
            p.op(0, Op::SetReporter);
            let y = p.root(1);
            p.finish(1, y);
            p.done()
        }));
    }
    if want(&["C17"]) {
        // a captured set is pushed to a span whose parents lie in two traces, from a thread whose
        // queue is drained late in a cycle, while one of the two roots was created on a queue the
        // same cycle has already drained (its StartCollect is not known yet): both copies must arrive
        for (order, nm) in [(0usize, "push-to-two-traces-one-not-yet-started/known-first"), (1, "push-to-two-traces-one-not-yet-started/unknown-first")] {
            v.push(tpl(nm, stepped(2, false), 60_000, move || {
                let mut p = B::new(2, c);
                let w = p.root(1);
                p.finish(1, w);
                let r1 = p.root(0);
                let set = new_local_label();
                p.op(1, Op::LcStart { set });
                let _l = p.lenter(1);
                p.ladd_event(1);
                p.pop(1);
                p.pop(1);
                let r2 = p.root(0);
                let m = if order == 0 { p.child_multi(0, &[r1, r2]) } else { p.child_multi(0, &[r2, r1]) };
                p.op(1, Op::PushSet { set, parents: vec![m] });
                p.finish(0, m);
                p.finish(0, r2);
                p.finish(0, r1);
                p.done()
            }));
        }
    }
    if want(&["C13"]) {
        // fut.in_span(root): what the final poll records must reach the trace, wherever a cycle falls
        for (nm, pending_first) in [("in_span(root)-ready-at-once", false), ("in_span(root)-pending-then-ready", true)] {
            v.push(tpl(nm, placed(), 30_000, move || {
                let mut p = B::new(2, c);
                let r = p.root(0);
                let a = new_adapter();
                p.op(0, Op::ANew { a, kind: AKind::Future, span: Some(r), poll_name: None, owned: vec![] });
                if pending_first {
                    p.op(1, Op::ACall { a, method: AMethod::Poll, steps: vec![Op::LAddEvent { e: new_event(), np: 0, k0: 0 }], outcome: AOutcome::Pending });
                }
                p.op(0, Op::ACall { a, method: AMethod::Poll, steps: final_poll_steps(), outcome: AOutcome::Value });
                p.op(0, Op::ADrop { a });
                p.done()
            }));
        }
        v.push(tpl("in_span(root)-dropped-while-inner-owns-a-child", placed(), 30_000, move || {
            let mut p = B::new(2, c);
            let r = p.root(0);
            let ch = p.child(0, r);
            let a = new_adapter();
            p.op(0, Op::ANew { a, kind: AKind::Future, span: Some(r), poll_name: None, owned: vec![ch] });
            p.op(1, Op::ACall { a, method: AMethod::Poll, steps: vec![Op::LAddEvent { e: new_event(), np: 0, k0: 0 }], outcome: AOutcome::Pending });
            p.op(1, Op::ADrop { a });
            p.done()
        }));
        v.push(tpl("in_span(child)-dropped-before-completion", placed(), 30_000, move || {
            let mut p = B::new(2, c);
            let r = p.root(0);
            let ch = p.child(0, r);
            let a = new_adapter();
            p.op(0, Op::ANew { a, kind: AKind::Future, span: Some(ch), poll_name: Some(0), owned: vec![] });
            let mut steps = vec![Op::LAddProps { n: 1, k0: new_keys(1) }];
            steps.extend(final_poll_steps());
            p.op(1, Op::ACall { a, method: AMethod::Poll, steps, outcome: AOutcome::Pending });
            p.op(1, Op::ADrop { a });
            p.finish(0, r);
            p.done()
        }));
    }
    if want(&["C14"]) {
        v.push(tpl("stream.in_span(root)-ends", placed(), 30_000, move || {
            let mut p = B::new(2, c);
            let r = p.root(0);
            let a = new_adapter();
            p.op(0, Op::ANew { a, kind: AKind::Stream, span: Some(r), poll_name: None, owned: vec![] });
            p.op(1, Op::ACall { a, method: AMethod::PollNext, steps: vec![Op::LAddEvent { e: new_event(), np: 0, k0: 0 }], outcome: AOutcome::Value });
            p.op(0, Op::ACall { a, method: AMethod::PollNext, steps: final_poll_steps(), outcome: AOutcome::End });
            p.op(0, Op::ADrop { a });
            p.done()
        }));
        v.push(tpl("sink.in_span(root)-closes", placed(), 30_000, move || {
            let mut p = B::new(2, c);
            let r = p.root(0);
            let a = new_adapter();
            p.op(0, Op::ANew { a, kind: AKind::Sink, span: Some(r), poll_name: None, owned: vec![] });
            p.op(1, Op::ACall { a, method: AMethod::StartSend, steps: vec![Op::LAddProps { n: 1, k0: new_keys(1) }], outcome: AOutcome::Value });
            p.op(0, Op::ACall { a, method: AMethod::PollClose, steps: final_poll_steps(), outcome: AOutcome::Value });
            p.op(0, Op::ADrop { a });
            p.done()
        }));
    }
    v
}
