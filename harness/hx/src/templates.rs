//! Hand-built minimal programs for the windows named in the properties; every scheduler decision
//! of a template is enumerated by re-execution.

use crate::gen::*;
use crate::ops::*;
use crate::sched::*;

pub struct Template {
    pub name: &'static str,
    pub build: Box<dyn Fn() -> Program>,
    pub opts: RunOpts,
    pub budget: usize,
}

pub fn all(_prop: &str, _cancelable: bool) -> Vec<Template> {
    vec![]
}

#[allow(dead_code)]
fn unused(_: Op) {
    let _ = new_span_label();
}
