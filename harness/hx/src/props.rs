//! Per-property workload profiles and the violation categories each property's check reports.

use crate::gen::{Profile, Weights};
use crate::ops::AKind;
use crate::oracle::Cat;
use crate::rng::Rng;

pub fn cats_for(prop: &str, cancelable: bool) -> Vec<Cat> {
    use Cat::*;
    match prop {
        "C01" => vec![Missing, Duplicate, LateDelivery, EarlyDelivery],
        "C02" => vec![WrongParent, WrongTraceId, IdProblem, UnexpectedUnknown],
        "C03" => vec![Missing, Duplicate, BatchSplit, EarlyDelivery, LateDelivery],
        "C04" => {
            if cancelable {
                vec![UnexpectedCancelled, Missing, BatchSplit]
            } else {
                vec![Missing, Duplicate, AttachMissing, AttachDup, AttachMisplaced, AttachOrder, UnexpectedCancelled]
            }
        }
        "C05" => vec![UnexpectedUnsampled, CtxMismatch, Missing],
        "C06" => vec![AttachMissing, AttachDup, AttachMisplaced, AttachOrder],
        "C07" => vec![Panic],
        "C08" => vec![Stats],
        "C09" => vec![
            Missing, Duplicate, WrongParent, WrongTraceId, IdProblem, UnexpectedUnknown, UnexpectedCancelled, UnexpectedUnsampled,
            AttachDup, AttachMisplaced, AttachOrder, BatchSplit, EarlyDelivery, Stats, Panic, Timing, AttachMissing,
        ],
        "C10" => vec![FrameBroken, CtxMismatch, WrongParent, AttachMisplaced],
        "C11" => vec![CtxMismatch, WrongParent, WrongTraceId, Panic],
        "C13" | "C14" => vec![
            Missing, Duplicate, WrongParent, WrongTraceId, UnexpectedUnknown, AttachMissing, AttachDup, AttachMisplaced, AttachOrder,
            BatchSplit, EarlyDelivery, LateDelivery, CtxMismatch, FrameBroken, Timing, Outcome,
        ],
        "C16" => vec![Lazy, UnexpectedUnknown, CtxMismatch],
        "C17" => vec![CopyDiff, WrongParent, WrongTraceId, IdProblem, Missing, Timing],
        "C18" => vec![Timing],
        _ => vec![],
    }
}

/// The profile used for program number `k` of a property's check.
pub fn profile_for(prop: &str, cancelable: bool, rng: &mut Rng) -> Profile {
    let mut pf = Profile { cancelable, ..Profile::default() };
    let mut w = Weights::default();
    match prop {
        "C01" => {
            w.exit = 5;
            w.child_multi = 5;
            w.pushset = 3;
            pf.p_unsampled = 40;
            pf.threads = (1, 5);
            pf.ops = (8, 60);
        }
        "C02" => {
            pf.boundary_ids = true;
            w.child_multi = 8;
            w.child_local = 8;
            w.lenter = 16;
            w.guard = 12;
            w.rootfromctx = 2;
            w.fromspan = 2;
            pf.max_depth = 12;
            pf.max_parents = 6;
            pf.same_trace_parents = rng.chance(1, 4);
            if pf.same_trace_parents {
                // parents in one trace: attachments would hit a recorded defect, keep them out
                w.addprops = 0;
                w.addevent = 0;
                w.laddprops = 0;
                w.laddevent = 0;
                pf.p_props = 200;
            }
        }
        "C03" => {
            w.exit = 4;
            w.child = 14;
            w.finish = 16;
            pf.p_unsampled = 30;
            pf.p_roots_last = 850;
            pf.threads = (2, 4);
        }
        "C04" => {
            w.cancel = 6;
            w.child_multi = 8;
            w.pushset = 4;
            w.lcstart = 4;
            pf.p_unsampled = 20;
            pf.threads = (1, 4);
        }
        "C05" => {
            pf.p_unsampled = 450;
            w.child_multi = 10;
            w.child_local = 8;
            w.pushset = 5;
            w.lcstart = 4;
            w.fromspan = 5;
            w.curlocal = 5;
            w.rootfromctx = 2;
        }
        "C06" => {
            w.addprops = 12;
            w.addevent = 10;
            w.laddprops = 10;
            w.laddevent = 10;
            w.lwithprops = 6;
            w.reent = 3;
            pf.p_props = 600;
            pf.str_mode_decorated = 500;
            pf.same_trace_parents = rng.chance(1, 6);
            pf.p_roots_last = 800;
        }
        "C07" => {
            // hostile: no-op / unsampled / empty parent sets everywhere, closures that use the API,
            // context probes in every state, thread exits
            w.reent = 14;
            w.noop = 6;
            w.child_multi = 8;
            w.curlocal = 8;
            w.fromspan = 5;
            w.elapsed = 3;
            w.cancel = 3;
            w.exit = 4;
            w.lcstart = 4;
            w.pushset = 4;
            w.torecords = 2;
            w.rootfromctx = 3;
            w.anew = 3;
            w.acall = 8;
            w.adrop = 2;
            pf.adapter_kinds = vec![AKind::Future, AKind::Stream, AKind::Sink, AKind::Duplex];
            pf.p_noop_parent = 400;
            pf.p_traceless_scope = 40;
            pf.p_unsampled = 250;
            pf.p_props = 500;
            pf.p_reguard = 300;
            pf.max_depth = if rng.chance(1, 4) { 40 } else { 10 };
            pf.str_mode_decorated = 300;
            pf.same_trace_parents = rng.chance(1, 3);
        }
        "C08" => {
            w.exit = 8;
            w.cancel = if cancelable { 4 } else { 1 };
            w.root = 12;
            pf.threads = (2, 5);
        }
        "C09" => {
            w.cancel = if cancelable { 5 } else { 2 };
            w.child_multi = 5;
            w.addprops = 7;
            w.addevent = 6;
            w.exit = 2;
            w.pushset = 3;
            pf.threads = (1, 3);
            pf.p_unsampled = 40;
            pf.p_roots_last = 700;
        }
        "C10" => {
            pf.probe_scopes = true;
            w.guard = 14;
            w.lenter = 16;
            w.lcstart = 6;
            w.pop = 26;
            w.child_local = 8;
            w.laddprops = 6;
            w.laddevent = 6;
            w.curlocal = 4;
            pf.max_depth = if rng.chance(1, 5) { 64 } else { 14 };
            pf.ops = (20, 90);
            pf.threads = (1, 3);
        }
        "C11" => {
            w.fromspan = 10;
            w.curlocal = 10;
            w.rootfromctx = 8;
            w.child_multi = 6;
            w.noop = 3;
            pf.p_noop_parent = 150;
            pf.boundary_ids = true;
            pf.p_traceless_scope = 40;
        }
        "C13" => {
            w.anew = 8;
            w.acall = 22;
            w.adrop = 3;
            pf.p_traceless_scope = 25;
            w.curlocal = 5;
            w.sleep = 3;
            pf.adapter_kinds = vec![AKind::Future];
            pf.probe_scopes = true;
            pf.threads = (1, 3);
            pf.p_unsampled = 30;
            pf.p_roots_last = 800;
        }
        "C14" => {
            w.anew = 8;
            w.acall = 24;
            w.adrop = 3;
            pf.p_traceless_scope = 25;
            w.curlocal = 5;
            w.sleep = 3;
            pf.adapter_kinds = vec![AKind::Stream, AKind::Sink, AKind::Duplex];
            pf.probe_scopes = true;
            pf.threads = (1, 3);
            pf.p_unsampled = 30;
            pf.p_roots_last = 800;
        }
        "C16" => {
            w.noop = 8;
            pf.p_noop_parent = 500;
            pf.p_unsampled = 150;
            pf.p_props = 700;
            w.addprops = 8;
            w.laddprops = 8;
            w.lwithprops = 6;
            w.curlocal = 4;
            w.fromspan = 4;
            w.reent = 4;
            // adapters bound to spans that are not recording, driven inside other spans' scopes
            w.anew = 5;
            w.acall = 14;
            w.adrop = 2;
            pf.adapter_kinds = vec![AKind::Future, AKind::Stream, AKind::Sink, AKind::Duplex];
        }
        "C17" => {
            w.lcstart = 10;
            w.lc_collect_open = 12;
            w.pushset = 12;
            w.torecords = 6;
            w.lenter = 18;
            w.laddprops = 6;
            w.laddevent = 6;
            w.sleep = 3;
            pf.max_parents = 8;
            pf.same_trace_parents = rng.chance(1, 8);
        }
        "C18" => {
            w.sleep = 10;
            w.elapsed = 5;
            w.lenter = 16;
            w.laddevent = 8;
            w.lcstart = 6;
            w.lc_collect_open = 14;
            w.pushset = 6;
            pf.sleep_us = (50, 3000);
            pf.ops = (8, 40);
            // now and then durations of more than a second
            if rng.chance(1, 200) {
                pf.long_sleeps = 1;
                pf.ops = (8, 24);
                w.sleep = 16;
            }
        }
        _ => {}
    }
    // special id values (0, 1, MAX, top bit, ...) in one program out of six everywhere
    if !pf.boundary_ids {
        pf.boundary_ids = rng.chance(1, 6);
    }
    // user code that panics inside tracing scopes (contained by its caller)
    w.unwind = match prop {
        "C01" | "C07" | "C10" | "C13" | "C14" => 4,
        "C02" | "C03" | "C04" | "C05" | "C06" | "C11" | "C16" | "C17" | "C18" => 2,
        _ => 0,
    };
    // a few futures / streams / sinks / duplex objects in every record-checking profile: adapters
    // open scopes of their own, and what they get wrong shows in ids, sampling, times, contexts
    if w.anew == 0 && matches!(prop, "C01" | "C02" | "C03" | "C04" | "C05" | "C06" | "C10" | "C11" | "C17" | "C18") {
        w.anew = 2;
        w.acall = 5;
        w.adrop = 1;
        pf.adapter_kinds = vec![AKind::Future, AKind::Stream, AKind::Sink, AKind::Duplex];
    }
    // events built some operations before they are attached
    w.prepevent = match prop {
        "C18" => 8,
        "C06" | "C01" | "C02" | "C10" | "C17" => 2,
        _ => 0,
    };
    pf.w = w;
    pf
}
