//! Execution engine: logical threads are real OS threads, exactly one of which runs at a time
//! (baton passing through one mutex + condvar).  The collector runs on its own logical thread and
//! can be stepped from one instrumentation point to the next.

use std::cell::Cell;
use std::collections::HashMap;
use std::future::Future;
use std::panic::{catch_unwind, AssertUnwindSafe};
use std::pin::Pin;
use std::sync::atomic::{AtomicBool, AtomicU64, AtomicUsize, Ordering};
use std::sync::{Arc, Condvar, Mutex, MutexGuard};
use std::task::{Context, Poll};
use std::time::{Duration, Instant, SystemTime, UNIX_EPOCH};

use fastrace::collector::{Config, Reporter, SpanContext, SpanId, SpanRecord, TraceId};
use fastrace::local::{LocalCollector, LocalParentGuard, LocalSpans};
use fastrace::prelude::{Event, LocalSpan, Span};
use fastrace::verif::Point;
use futures::sink::Sink;
use futures::stream::Stream;

use crate::ops::*;

pub const LT_NONE: usize = usize::MAX;
pub const LT_COLLECTOR: usize = usize::MAX - 1;
pub const LT_MAIN: usize = usize::MAX - 2;

thread_local! {
    /// logical thread id of this OS thread (no destructor: readable during TLS teardown)
    static LT: Cell<usize> = const { Cell::new(LT_NONE) };
    static CUR_CTX: Cell<*mut WorkerCtx> = const { Cell::new(std::ptr::null_mut()) };
    static CUR_CALL: Cell<*const CallPlan> = const { Cell::new(std::ptr::null()) };
}

pub fn set_lt(v: usize) {
    LT.with(|c| c.set(v));
}
pub fn lt() -> usize {
    LT.try_with(|c| c.get()).unwrap_or(LT_NONE)
}

fn lock<T>(m: &Mutex<T>) -> MutexGuard<'_, T> {
    m.lock().unwrap_or_else(|e| e.into_inner())
}

// ------------------------------------------------------------------------------------------------
// clocks

static EPOCH: Mutex<Option<Instant>> = Mutex::new(None);

pub fn now_ns() -> u64 {
    let mut g = lock(&EPOCH);
    let e = g.get_or_insert_with(Instant::now);
    e.elapsed().as_nanos() as u64
}

pub fn sys_ns() -> u64 {
    SystemTime::now().duration_since(UNIX_EPOCH).map(|d| d.as_nanos() as u64).unwrap_or(0)
}

// ------------------------------------------------------------------------------------------------
// global observation state

/// logical position: set by the scheduler before every action
pub static POS: AtomicU64 = AtomicU64::new(0);
pub static CLOSURES: AtomicU64 = AtomicU64::new(0);
pub static CYCLES_BEGUN: AtomicU64 = AtomicU64::new(0);
pub static CYCLES_ENDED: AtomicU64 = AtomicU64::new(0);
/// when false, hook events are counted but not logged (free-running modes)
pub static LOG_HOOKS: AtomicBool = AtomicBool::new(true);
/// bit set of the collector points a stepped cycle parks at (see `point_bit`)
pub static CYIELD: AtomicU64 = AtomicU64::new(u64::MAX);
/// workers also park before pushing a command replayed from the overflow list
pub static PARK_REPLAY: AtomicBool = AtomicBool::new(false);

pub fn point_bit(p: &Point) -> u64 {
    match p {
        Point::CycleBegin => 1,
        Point::PassBegin { .. } => 2,
        Point::DrainBegin { .. } => 4,
        Point::RecvEmpty { .. } => 8,
        Point::DrainEnd => 16,
        Point::BeforeReport { .. } => 32,
        Point::CycleEnd => 64,
        _ => 0,
    }
}
pub const YIELD_DRAIN: u64 = 4 | 8 | 32;

#[derive(Clone, Debug)]
pub struct ReportCall {
    pub pos: u64,
    pub lt: usize,
    pub cycle: u64,
    pub t_ns: u64,
    pub records: Vec<SpanRecord>,
}

pub static REPORTS: Mutex<Vec<ReportCall>> = Mutex::new(Vec::new());

#[derive(Clone, Copy, Debug)]
pub struct HookEv {
    pub pos: u64,
    pub lt: usize,
    pub point: Point,
}

pub static HOOKLOG: Mutex<Vec<HookEv>> = Mutex::new(Vec::new());

pub struct HarnessReporter;

impl Reporter for HarnessReporter {
    fn report(&mut self, spans: Vec<SpanRecord>) {
        let call = ReportCall {
            pos: POS.load(Ordering::SeqCst),
            lt: lt(),
            cycle: CYCLES_BEGUN.load(Ordering::SeqCst),
            t_ns: now_ns(),
            records: spans,
        };
        lock(&REPORTS).push(call);
    }
}

// ------------------------------------------------------------------------------------------------
// control: baton passing

#[derive(Clone, Copy, Debug, PartialEq, Eq)]
pub enum Turn {
    Main,
    Worker(usize),
    Collector,
}

#[derive(Clone, Debug, PartialEq)]
pub enum WState {
    Idle,
    Running,
    Done,
    ParkedSend(usize),
}

#[derive(Clone, Debug, PartialEq)]
pub enum CState {
    Idle,
    Running,
    Parked(Point),
    Done,
}

pub enum WCmd {
    Run(Arc<TopOp>),
    Quit,
}

pub struct TopOp {
    pub op: Op,
    pub flat_base: usize,
}

pub struct Ctl {
    pub turn: Turn,
    pub wcmd: Vec<Option<WCmd>>,
    pub wstate: Vec<WState>,
    /// park at the k-th Send of the running op if bit k is set
    pub park_mask: Vec<u64>,
    pub send_count: Vec<usize>,
    pub yield_count: Vec<usize>,
    pub ccmd: Option<bool>,
    pub cstate: CState,
    pub cstepped: bool,
    pub cquit: bool,
}

pub static CTL: Mutex<Option<Ctl>> = Mutex::new(None);
pub static CV: Condvar = Condvar::new();

fn ctl<'a>(g: &'a mut MutexGuard<'_, Option<Ctl>>) -> &'a mut Ctl {
    g.as_mut().expect("engine not initialised")
}

fn wait_turn(me: Turn) -> MutexGuard<'static, Option<Ctl>> {
    let mut g = lock(&CTL);
    loop {
        if g.as_ref().map(|c| c.turn == me).unwrap_or(false) {
            return g;
        }
        g = CV.wait(g).unwrap_or_else(|e| e.into_inner());
    }
}

/// The hook installed into fastrace.
static ENGINE_CANCELABLE: std::sync::atomic::AtomicBool = std::sync::atomic::AtomicBool::new(false);

pub fn hook(p: &Point) {
    let me = lt();
    match p {
        Point::CycleBegin => {
            CYCLES_BEGUN.fetch_add(1, Ordering::SeqCst);
        }
        Point::CycleEnd => {
            CYCLES_ENDED.fetch_add(1, Ordering::SeqCst);
        }
        _ => {}
    }
    if LOG_HOOKS.load(Ordering::Relaxed) {
        lock(&HOOKLOG).push(HookEv {
            pos: POS.load(Ordering::SeqCst),
            lt: me,
            point: *p,
        });
    }
    if me == LT_NONE || me == LT_MAIN {
        return;
    }
    if me == LT_COLLECTOR {
        let mut g = lock(&CTL);
        let stepped = g.as_ref().map(|c| c.cstepped).unwrap_or(false);
        if !stepped || CYIELD.load(Ordering::Relaxed) & point_bit(p) == 0 {
            return;
        }
        {
            let c = ctl(&mut g);
            c.cstate = CState::Parked(*p);
            c.turn = Turn::Main;
        }
        CV.notify_all();
        drop(g);
        let mut g = wait_turn(Turn::Collector);
        ctl(&mut g).cstate = CState::Running;
        return;
    }
    // worker
    let is_send = matches!(p, Point::Send { .. });
    let is_replay = matches!(p, Point::Push { replay: true, .. }) && PARK_REPLAY.load(Ordering::Relaxed);
    if is_send || is_replay {
        let mut g = lock(&CTL);
        if g.is_none() {
            return;
        }
        let c = ctl(&mut g);
        if me >= c.wstate.len() || c.wstate[me] != WState::Running {
            return;
        }
        // number of Sends of this op already let through when we stop here
        let sends_done = if is_send { c.send_count[me] } else { c.send_count[me].saturating_sub(1) };
        if is_send {
            c.send_count[me] += 1;
        }
        let y = c.yield_count[me];
        c.yield_count[me] += 1;
        if y < 64 && (c.park_mask[me] >> y) & 1 == 1 {
            c.wstate[me] = WState::ParkedSend(sends_done);
            c.turn = Turn::Main;
            CV.notify_all();
            drop(g);
            let mut g = wait_turn(Turn::Worker(me));
            ctl(&mut g).wstate[me] = WState::Running;
        }
    }
}

// ------------------------------------------------------------------------------------------------
// shared objects

pub static SPANS: Mutex<Option<HashMap<u32, Span>>> = Mutex::new(None);
pub static SETS: Mutex<Option<HashMap<u32, LocalSpans>>> = Mutex::new(None);
pub static ADAPTERS: Mutex<Option<HashMap<u32, AdapterObj>>> = Mutex::new(None);

#[derive(Clone, Debug, PartialEq)]
pub enum ResKind {
    None,
    Ctx(Option<(u128, u64, bool)>),
    Elapsed(Option<u64>),
    Records(Vec<SpanRecord>),
    Outcome(AOutcome),
    Panic(String),
    Skipped,
}

#[derive(Clone, Debug)]
pub struct OpResult {
    pub t0: u64,
    pub t1: u64,
    pub sys0: u64,
    pub closures: u64,
    pub kind: ResKind,
    pub done: bool,
}

impl Default for OpResult {
    fn default() -> Self {
        OpResult { t0: 0, t1: 0, sys0: 0, closures: 0, kind: ResKind::None, done: false }
    }
}

pub static RESULTS: Mutex<Vec<OpResult>> = Mutex::new(Vec::new());

pub enum AdapterObj {
    F(Pin<Box<dyn Future<Output = u32> + Send>>),
    St(Pin<Box<dyn Stream<Item = u32> + Send>>),
    Si(Pin<Box<dyn Sink<u32, Error = u32> + Send>>),
    Du(Pin<Box<dyn Duplex + Send>>),
}

/// one object used through both of its halves
pub trait Duplex: Stream<Item = u32> + Sink<u32, Error = u32> {}
impl<T: Stream<Item = u32> + Sink<u32, Error = u32>> Duplex for T {}

enum RFrame {
    Guard(LocalParentGuard),
    Local(Option<LocalSpan>),
    Collector(Option<LocalCollector>, u32),
}

pub struct WorkerCtx {
    pub t: usize,
    frames: Vec<RFrame>,
    next_flat: usize,
    /// events built ahead of their use (`PrepEvent`)
    prepared: std::collections::HashMap<u32, Event>,
}

struct CallPlan {
    steps: Vec<Op>,
    outcome: AOutcome,
    inner_start_ns: Cell<u64>,
    inner_done_ns: Cell<u64>,
}

/// The scripted inner future / stream / sink: runs the steps of the current call plan on the
/// calling thread and returns the planned outcome.
struct Inner {
    /// spans the inner object holds (dropped with it)
    #[allow(dead_code)]
    owned: Vec<Span>,
}

/// Drops the frames above a floor when it is dropped itself: stands in for guards that user code
/// keeps on its stack and that a panic unwinds through (the harness keeps them in `ctx.frames`).
struct FrameCloser(*mut WorkerCtx, usize);
impl Drop for FrameCloser {
    fn drop(&mut self) {
        // SAFETY: same thread; the outer reference is not used while the unwinding runs
        let ctx = unsafe { &mut *self.0 };
        while ctx.frames.len() > self.1 {
            let f = ctx.frames.pop();
            drop(f);
        }
    }
}

/// Spans that live on the unwinding stack: finished (dropped) while the thread is panicking.
struct SpanDropper(Vec<u32>);
impl Drop for SpanDropper {
    fn drop(&mut self) {
        for l in &self.0 {
            let s = lock(&SPANS).as_mut().and_then(|m| m.remove(l));
            drop(s);
        }
    }
}

/// payload of the panics the harness raises on behalf of user code
/// `Span::enter_with_parents` takes any iterator: the parents are handed over in the forms callers
/// use (an exact-size map over a list, a collected `Vec`, lazily filtering adapters whose
/// `size_hint` has a lower bound of 0, a chain), chosen by the span's label.
fn enter_with_parents_varied(name: String, l: u32, ps: Vec<&Span>) -> Span {
    match l % 5 {
        0 => Span::enter_with_parents(name, ps.iter().copied()),
        1 => Span::enter_with_parents(name, ps),
        2 => Span::enter_with_parents(name, ps.iter().copied().filter(|_| true)),
        3 => Span::enter_with_parents(name, ps.iter().map(|p| Some(*p)).filter_map(|p| p)),
        _ => {
            let (a, b) = ps.split_at(ps.len() / 2);
            Span::enter_with_parents(name, a.iter().copied().chain(b.iter().copied()))
        }
    }
}

struct UserPanic;

fn run_plan() -> AOutcome {
    let plan = CUR_CALL.with(|c| c.get());
    let ctxp = CUR_CTX.with(|c| c.get());
    if plan.is_null() || ctxp.is_null() {
        return AOutcome::Pending;
    }
    // SAFETY: both pointers are set by `exec_op(ACall)` on this thread for the duration of the
    // adapter call, and the outer reference is not used while the call runs.
    let (plan, ctx) = unsafe { (&*plan, &mut *ctxp) };
    plan.inner_start_ns.set(now_ns());
    if plan.outcome == AOutcome::Panic {
        // the guards and local spans the steps leave open die in the unwinding, innermost first
        let _closer = FrameCloser(ctxp, ctx.frames.len());
        for st in &plan.steps {
            exec_op(ctx, st);
        }
        CUR_CALL.with(|c| c.set(plan as *const CallPlan));
        plan.inner_done_ns.set(now_ns());
        std::panic::resume_unwind(Box::new(UserPanic));
    }
    for st in &plan.steps {
        exec_op(ctx, st);
    }
    // nested calls may have changed the current plan pointer; restore ours
    CUR_CALL.with(|c| c.set(plan as *const CallPlan));
    plan.inner_done_ns.set(now_ns());
    plan.outcome
}

impl Future for Inner {
    type Output = u32;
    fn poll(self: Pin<&mut Self>, _cx: &mut Context<'_>) -> Poll<u32> {
        match run_plan() {
            AOutcome::Pending => Poll::Pending,
            _ => Poll::Ready(7),
        }
    }
}

impl Stream for Inner {
    type Item = u32;
    fn poll_next(self: Pin<&mut Self>, _cx: &mut Context<'_>) -> Poll<Option<u32>> {
        match run_plan() {
            AOutcome::Pending => Poll::Pending,
            AOutcome::End => Poll::Ready(None),
            _ => Poll::Ready(Some(7)),
        }
    }
    /// an honest hint from the script of the call that is about to run: adapters are free to
    /// consult it, and a stream that is at its end says so before its last poll
    fn size_hint(&self) -> (usize, Option<usize>) {
        let plan = CUR_CALL.with(|c| c.get());
        if plan.is_null() {
            return (0, None);
        }
        // SAFETY: see `run_plan`
        match unsafe { &*plan }.outcome {
            AOutcome::End => (0, Some(0)),
            AOutcome::Value => (1, None),
            _ => (0, None),
        }
    }
}

fn sink_res(o: AOutcome) -> Poll<Result<(), u32>> {
    match o {
        AOutcome::Pending => Poll::Pending,
        AOutcome::Error => Poll::Ready(Err(9)),
        _ => Poll::Ready(Ok(())),
    }
}

impl Sink<u32> for Inner {
    type Error = u32;
    fn poll_ready(self: Pin<&mut Self>, _cx: &mut Context<'_>) -> Poll<Result<(), u32>> {
        sink_res(run_plan())
    }
    fn start_send(self: Pin<&mut Self>, _item: u32) -> Result<(), u32> {
        match run_plan() {
            AOutcome::Error => Err(9),
            _ => Ok(()),
        }
    }
    fn poll_flush(self: Pin<&mut Self>, _cx: &mut Context<'_>) -> Poll<Result<(), u32>> {
        sink_res(run_plan())
    }
    fn poll_close(self: Pin<&mut Self>, _cx: &mut Context<'_>) -> Poll<Result<(), u32>> {
        sink_res(run_plan())
    }
}

fn props_vec(k0: u32, n: u8) -> Vec<(String, String)> {
    CLOSURES.fetch_add(1, Ordering::SeqCst);
    (k0..k0 + n as u32).map(|k| (key(k), val(k))).collect()
}

fn with_props(span: Span, np: u8, k0: u32) -> Span {
    match np {
        0 => span,
        1 => span.with_property(|| {
            CLOSURES.fetch_add(1, Ordering::SeqCst);
            (key(k0), val(k0))
        }),
        _ => span.with_properties(|| props_vec(k0, np)),
    }
}

fn put_span(l: u32, s: Span) {
    lock(&SPANS).as_mut().unwrap().insert(l, s);
}

fn with_span<R>(l: u32, f: impl FnOnce(&Span) -> R) -> R {
    let g = lock(&SPANS);
    let s = g.as_ref().unwrap().get(&l).expect("span slot empty");
    f(s)
}

fn mk_event(e: u32, np: u8, k0: u32) -> Event {
    let ev = Event::new(ename(e));
    match np {
        0 => ev,
        1 => ev.with_property(|| (key(k0), val(k0))),
        _ => ev.with_properties(|| (k0..k0 + np as u32).map(|k| (key(k), val(k))).collect::<Vec<_>>()),
    }
}

fn set_result(ix: usize, r: OpResult) {
    let mut g = lock(&RESULTS);
    if g.len() <= ix {
        g.resize(ix + 1, OpResult::default());
    }
    g[ix] = r;
}

fn get_result(ix: usize) -> Option<OpResult> {
    lock(&RESULTS).get(ix).cloned()
}

fn ctx_tuple(c: Option<SpanContext>) -> Option<(u128, u64, bool)> {
    c.map(|c| (c.trace_id.0, c.span_id.0, c.sampled))
}

/// Execute one operation on the current thread. Results go to RESULTS[flat index].
pub fn exec_op(ctx: &mut WorkerCtx, op: &Op) {
    let ix = ctx.next_flat;
    ctx.next_flat += 1;
    let c0 = CLOSURES.load(Ordering::SeqCst);
    let sys0 = sys_ns();
    let t0 = now_ns();
    let mut kind = ResKind::None;
    let mut t1_override = None;
    match op {
        Op::Root { l, trace_id, parent, sampled, np, k0 } => {
            let c = SpanContext::new(TraceId(*trace_id), SpanId(*parent)).sampled(*sampled);
            let s = Span::root(sname(*l), c);
            t1_override = Some(now_ns());
            put_span(*l, with_props(s, *np, *k0));
        }
        Op::Child { l, parents, single, np, k0 } => {
            let s = {
                let g = lock(&SPANS);
                let m = g.as_ref().unwrap();
                if *single {
                    Span::enter_with_parent(sname(*l), &m[&parents[0]])
                } else {
                    enter_with_parents_varied(sname(*l), *l as u32, parents.iter().map(|p| &m[p]).collect())
                }
            };
            t1_override = Some(now_ns());
            put_span(*l, with_props(s, *np, *k0));
        }
        Op::ChildLocal { l, np, k0 } => {
            let s = Span::enter_with_local_parent(sname(*l));
            t1_override = Some(now_ns());
            put_span(*l, with_props(s, *np, *k0));
        }
        Op::Noop { l } => put_span(*l, Span::noop()),
        Op::Guard { span } => {
            let g = with_span(*span, |s| s.set_local_parent());
            ctx.frames.push(RFrame::Guard(g));
        }
        Op::LEnter { l, np, k0 } => {
            let s = LocalSpan::enter_with_local_parent(lname(*l));
            t1_override = Some(now_ns());
            let s = match np {
                0 => s,
                1 => s.with_property(|| {
                    CLOSURES.fetch_add(1, Ordering::SeqCst);
                    (key(*k0), val(*k0))
                }),
                _ => s.with_properties(|| props_vec(*k0, *np)),
            };
            ctx.frames.push(RFrame::Local(Some(s)));
        }
        Op::LcStart { set } => {
            let c = LocalCollector::start();
            ctx.frames.push(RFrame::Collector(Some(c), *set));
        }
        Op::Pop => match ctx.frames.pop() {
            Some(RFrame::Guard(g)) => drop(g),
            Some(RFrame::Local(s)) => drop(s),
            Some(RFrame::Collector(c, set)) => {
                if let Some(c) = c {
                    let ls = c.collect();
                    lock(&SETS).as_mut().unwrap().insert(set, ls);
                }
            }
            None => {}
        },
        Op::LcCollectOpen => {
            let mut open = vec![];
            while let Some(RFrame::Local(_)) = ctx.frames.last() {
                open.push(ctx.frames.pop());
            }
            if let Some(RFrame::Collector(Some(c), set)) = ctx.frames.pop() {
                let ls = c.collect();
                lock(&SETS).as_mut().unwrap().insert(set, ls);
            }
            // innermost first
            for f in open {
                drop(f);
            }
        }
        Op::PushSet { set, parents } => {
            let ls = lock(&SETS).as_ref().unwrap().get(set).cloned();
            if let Some(ls) = ls {
                for p in parents {
                    with_span(*p, |s| s.push_child_spans(ls.clone()));
                }
            }
        }
        Op::ToRecords { set, trace_id, span_id } => {
            let ls = lock(&SETS).as_ref().unwrap().get(set).cloned();
            if let Some(ls) = ls {
                let recs = ls.to_span_records(SpanContext::new(TraceId(*trace_id), SpanId(*span_id)));
                kind = ResKind::Records(recs);
            }
        }
        Op::AddProps { span, n, k0 } => with_span(*span, |s| {
            if *n == 1 {
                s.add_property(|| {
                    CLOSURES.fetch_add(1, Ordering::SeqCst);
                    (key(*k0), val(*k0))
                })
            } else {
                s.add_properties(|| props_vec(*k0, *n))
            }
        }),
        Op::AddEvent { span, e, np, k0 } => {
            if *e % 3 == 2 {
                // the older entry point for the same thing
                #[allow(deprecated)]
                with_span(*span, |s| {
                    Event::add_to_parent(ename(*e), s, || {
                        (*k0..*k0 + *np as u32).map(|k| (std::borrow::Cow::from(key(k)), std::borrow::Cow::from(val(k)))).collect::<Vec<_>>()
                    })
                });
            } else {
                let ev = ctx.prepared.remove(e).unwrap_or_else(|| mk_event(*e, *np, *k0));
                with_span(*span, |s| s.add_event(ev));
            }
        }
        Op::PrepEvent { e, np, k0 } => {
            let ev = mk_event(*e, *np, *k0);
            ctx.prepared.insert(*e, ev);
        }
        Op::LAddProps { n, k0 } => {
            if *n == 1 {
                LocalSpan::add_property(|| {
                    CLOSURES.fetch_add(1, Ordering::SeqCst);
                    (key(*k0), val(*k0))
                })
            } else {
                LocalSpan::add_properties(|| props_vec(*k0, *n))
            }
        }
        Op::LAddEvent { e, np, k0 } => {
            if *e % 3 == 2 {
                #[allow(deprecated)]
                Event::add_to_local_parent(ename(*e), || {
                    (*k0..*k0 + *np as u32).map(|k| (std::borrow::Cow::from(key(k)), std::borrow::Cow::from(val(k)))).collect::<Vec<_>>()
                })
            } else {
                let ev = ctx.prepared.remove(e).unwrap_or_else(|| mk_event(*e, *np, *k0));
                LocalSpan::add_event(ev)
            }
        }
        Op::LWithProps { n, k0 } => {
            if let Some(RFrame::Local(slot)) = ctx.frames.last_mut() {
                if let Some(s) = slot.take() {
                    let s = if *n == 1 {
                        s.with_property(|| {
                            CLOSURES.fetch_add(1, Ordering::SeqCst);
                            (key(*k0), val(*k0))
                        })
                    } else {
                        s.with_properties(|| props_vec(*k0, *n))
                    };
                    *slot = Some(s);
                }
            }
        }
        Op::Cancel { span } => with_span(*span, |s| s.cancel()),
        Op::Finish { span } => {
            let s = lock(&SPANS).as_mut().unwrap().remove(span);
            t1_override = None;
            drop(s);
        }
        Op::FromSpan { span } => {
            kind = ResKind::Ctx(ctx_tuple(with_span(*span, SpanContext::from_span)));
        }
        Op::CurLocal => {
            kind = ResKind::Ctx(ctx_tuple(SpanContext::current_local_parent()));
        }
        Op::Elapsed { span } => {
            kind = ResKind::Elapsed(with_span(*span, |s| s.elapsed()).map(|d| d.as_nanos() as u64));
        }
        Op::RootFromCtx { l, from, via_text } => {
            let src = get_result(*from).map(|r| r.kind);
            let s = match src {
                Some(ResKind::Ctx(Some((tid, sid, smp)))) => {
                    let c = SpanContext::new(TraceId(tid), SpanId(sid)).sampled(smp);
                    let c = if *via_text {
                        SpanContext::decode_w3c_traceparent(&c.encode_w3c_traceparent())
                    } else {
                        Some(c)
                    };
                    match c {
                        Some(c) => Span::root(sname(*l), c),
                        None => Span::noop(),
                    }
                }
                _ => Span::noop(),
            };
            put_span(*l, s);
        }
        Op::Sleep { us } => {
            let until = Instant::now() + Duration::from_micros(*us as u64);
            while Instant::now() < until {
                std::hint::spin_loop();
            }
        }
        Op::Fill { span, n } => with_span(*span, |s| {
            for _ in 0..*n {
                s.add_event(Event::new("fill"));
            }
        }),
        Op::Exit => {}
        Op::ANew { a, kind: ak, span, poll_name, owned } => {
            use fastrace::future::FutureExt;
            let sp = span.map(|l| lock(&SPANS).as_mut().unwrap().remove(&l).expect("span for adapter"));
            let owned: Vec<Span> = owned.iter().map(|l| lock(&SPANS).as_mut().unwrap().remove(l).expect("owned span")).collect();
            #[allow(non_snake_case)]
            let Inner = Inner { owned };
            let obj = match ak {
                AKind::Future => match (sp, poll_name) {
                    (Some(s), None) => AdapterObj::F(Box::pin(Inner.in_span(s))),
                    (Some(s), Some(_)) => AdapterObj::F(Box::pin(Inner.enter_on_poll(pname(*a)).in_span(s))),
                    (None, Some(_)) => AdapterObj::F(Box::pin(Inner.enter_on_poll(pname(*a)))),
                    (None, None) => AdapterObj::F(Box::pin(Inner)),
                },
                AKind::Stream => match sp {
                    Some(s) => AdapterObj::St(Box::pin(fastrace_futures::StreamExt::in_span(Inner, s))),
                    None => AdapterObj::St(Box::pin(Inner)),
                },
                AKind::Sink => match sp {
                    Some(s) => AdapterObj::Si(Box::pin(fastrace_futures::SinkExt::<u32>::in_span(Inner, s))),
                    None => AdapterObj::Si(Box::pin(Inner)),
                },
                AKind::Duplex => match sp {
                    // both traits offer `in_span`; a duplex object may be wrapped through either
                    Some(s) if *a % 2 == 0 => AdapterObj::Du(Box::pin(fastrace_futures::StreamExt::in_span(Inner, s))),
                    Some(s) => AdapterObj::Du(Box::pin(fastrace_futures::SinkExt::<u32>::in_span(Inner, s))),
                    None => AdapterObj::Du(Box::pin(Inner)),
                },
            };
            lock(&ADAPTERS).as_mut().unwrap().insert(*a, obj);
        }
        Op::ACall { a, method, steps, outcome } => {
            set_result(ix, OpResult { t0, t1: now_ns(), sys0, closures: 0, kind: ResKind::None, done: true });
            let mut obj = lock(&ADAPTERS).as_mut().unwrap().remove(a).expect("adapter");
            let plan = CallPlan {
                steps: steps.clone(),
                outcome: *outcome,
                inner_start_ns: Cell::new(0),
                inner_done_ns: Cell::new(0),
            };
            let saved_call = CUR_CALL.with(|c| c.replace(&plan as *const CallPlan));
            let saved_ctx = CUR_CTX.with(|c| c.replace(ctx as *mut WorkerCtx));
            let waker = futures::task::noop_waker();
            let mut cx = Context::from_waker(&waker);
            let got = std::panic::catch_unwind(std::panic::AssertUnwindSafe(|| match (&mut obj, method) {
                (AdapterObj::F(f), AMethod::Poll) => match f.as_mut().poll(&mut cx) {
                    Poll::Pending => AOutcome::Pending,
                    Poll::Ready(_) => AOutcome::Value,
                },
                (AdapterObj::St(s), AMethod::PollNext) => match s.as_mut().poll_next(&mut cx) {
                    Poll::Pending => AOutcome::Pending,
                    Poll::Ready(None) => AOutcome::End,
                    Poll::Ready(Some(_)) => AOutcome::Value,
                },
                (AdapterObj::Du(s), AMethod::PollNext) => match Stream::poll_next(s.as_mut(), &mut cx) {
                    Poll::Pending => AOutcome::Pending,
                    Poll::Ready(None) => AOutcome::End,
                    Poll::Ready(Some(_)) => AOutcome::Value,
                },
                (AdapterObj::Du(s), m) => {
                    let r = match m {
                        AMethod::PollReady => Sink::poll_ready(s.as_mut(), &mut cx),
                        AMethod::StartSend => Poll::Ready(Sink::start_send(s.as_mut(), 1)),
                        AMethod::PollFlush => Sink::poll_flush(s.as_mut(), &mut cx),
                        _ => Sink::poll_close(s.as_mut(), &mut cx),
                    };
                    match r {
                        Poll::Pending => AOutcome::Pending,
                        Poll::Ready(Ok(())) => AOutcome::Value,
                        Poll::Ready(Err(_)) => AOutcome::Error,
                    }
                }
                (AdapterObj::Si(s), m) => {
                    let r = match m {
                        AMethod::PollReady => s.as_mut().poll_ready(&mut cx),
                        AMethod::StartSend => Poll::Ready(s.as_mut().start_send(1)),
                        AMethod::PollFlush => s.as_mut().poll_flush(&mut cx),
                        _ => s.as_mut().poll_close(&mut cx),
                    };
                    match r {
                        Poll::Pending => AOutcome::Pending,
                        Poll::Ready(Ok(())) => AOutcome::Value,
                        Poll::Ready(Err(_)) => AOutcome::Error,
                    }
                }
                _ => AOutcome::Pending,
            }));
            let got = match got {
                Ok(g) => g,
                Err(e) if e.is::<UserPanic>() => AOutcome::Panic,
                Err(e) => {
                    CUR_CALL.with(|c| c.set(saved_call));
                    CUR_CTX.with(|c| c.set(saved_ctx));
                    lock(&ADAPTERS).as_mut().unwrap().insert(*a, obj);
                    std::panic::resume_unwind(e)
                }
            };
            CUR_CALL.with(|c| c.set(saved_call));
            CUR_CTX.with(|c| c.set(saved_ctx));
            lock(&ADAPTERS).as_mut().unwrap().insert(*a, obj);
            // the end of the call has its own flat index
            let eix = ctx.next_flat;
            ctx.next_flat += 1;
            let inner_done = plan.inner_done_ns.get();
            let inner_start = plan.inner_start_ns.get();
            // the scope (and an enter_on_poll span) was opened between t0 and the start of the
            // inner object's call
            set_result(
                ix,
                OpResult {
                    t0,
                    t1: if inner_start != 0 { inner_start } else { now_ns() },
                    sys0,
                    closures: 0,
                    kind: ResKind::None,
                    done: true,
                },
            );
            set_result(
                eix,
                OpResult {
                    t0: if inner_done != 0 { inner_done } else { t0 },
                    t1: now_ns(),
                    sys0,
                    closures: 0,
                    kind: ResKind::Outcome(got),
                    done: true,
                },
            );
            return;
        }
        Op::ADrop { a } => {
            let obj = lock(&ADAPTERS).as_mut().unwrap().remove(a);
            drop(obj);
        }
        Op::SetReporter => {
            let before = CYCLES_ENDED.load(Ordering::SeqCst);
            fastrace::set_reporter(
                HarnessReporter,
                Config::default().cancelable(ENGINE_CANCELABLE.load(Ordering::SeqCst)).report_interval(Duration::from_secs(3600)),
            );
            // the new background thread runs one cycle at once; let it finish before going on
            let t = Instant::now();
            while CYCLES_ENDED.load(Ordering::SeqCst) == before && t.elapsed() < Duration::from_secs(10) {
                std::thread::sleep(Duration::from_millis(1));
            }
        }
        Op::Unwind { steps, drops } => {
            set_result(ix, OpResult { t0, t1: now_ns(), sys0, closures: 0, kind: ResKind::None, done: true });
            let floor = ctx.frames.len();
            let ctxp = ctx as *mut WorkerCtx;
            // what user code does when it panics inside tracing scopes: the guards and local spans
            // that are still open are dropped, innermost first, while the thread is panicking;
            // the caller contains the panic. The harness keeps guards in `ctx.frames` rather than
            // on the Rust stack, so a stack object drops them during the unwinding.
            let r = std::panic::catch_unwind(std::panic::AssertUnwindSafe(|| {
                // declared first, dropped last: guards and local spans go before the spans
                let _spans = SpanDropper(drops.clone());
                let _closer = FrameCloser(ctxp, floor);
                let ctx = unsafe { &mut *ctxp };
                for st in steps.iter() {
                    exec_op(ctx, st);
                }
                // no panic hook output; `std::thread::panicking()` is true while unwinding
                std::panic::resume_unwind(Box::new(UserPanic));
            }));
            let ctx = unsafe { &mut *ctxp };
            if let Err(e) = r {
                if !e.is::<UserPanic>() {
                    // a panic that came out of the library or the harness: not ours to swallow
                    std::panic::resume_unwind(e);
                }
            }
            let eix = ctx.next_flat;
            ctx.next_flat += 1;
            set_result(ix, OpResult { t0, t1: now_ns(), sys0, closures: 0, kind: ResKind::None, done: true });
            set_result(eix, OpResult { t0, t1: now_ns(), sys0, closures: 0, kind: ResKind::None, done: true });
            return;
        }
        Op::Reent { host, steps } => {
            set_result(ix, OpResult { t0, t1: now_ns(), sys0, closures: 0, kind: ResKind::None, done: true });
            let ctxp = ctx as *mut WorkerCtx;
            // the closure handed to the library: runs the nested steps on this thread, then
            // yields the properties. SAFETY: `ctx` is not used by this function while the
            // library call that may invoke the closure is in progress.
            let run = move || {
                CLOSURES.fetch_add(1, Ordering::SeqCst);
                let ctx = unsafe { &mut *ctxp };
                for st in steps.iter() {
                    exec_op(ctx, st);
                }
            };
            let pv = |k0: u32, n: u8| -> Vec<(String, String)> { (k0..k0 + n as u32).map(|k| (key(k), val(k))).collect() };
            // half of the re-entrant closures return a lazy iterator: the nested steps run when the
            // library asks for the first pair, not while the closure itself runs
            struct LazyProps<F: FnMut()> {
                run: Option<F>,
                items: std::vec::IntoIter<(String, String)>,
            }
            impl<F: FnMut()> Iterator for LazyProps<F> {
                type Item = (String, String);
                fn next(&mut self) -> Option<(String, String)> {
                    if let Some(mut f) = self.run.take() {
                        f();
                    }
                    self.items.next()
                }
            }
            let c1 = CLOSURES.load(Ordering::SeqCst);
            match &**host {
                Op::AddProps { span, n, k0 } => {
                    let sp = lock(&SPANS).as_mut().unwrap().remove(span).expect("span slot empty");
                    sp.add_properties(|| {
                        if *k0 % 2 == 1 {
                            LazyProps { run: Some(run), items: pv(*k0, *n).into_iter() }
                        } else {
                            run();
                            LazyProps { run: None, items: pv(*k0, *n).into_iter() }
                        }
                    });
                    put_span(*span, sp);
                }
                Op::LAddProps { n, k0 } => LocalSpan::add_properties(|| {
                    if *k0 % 2 == 1 {
                        LazyProps { run: Some(run), items: pv(*k0, *n).into_iter() }
                    } else {
                        run();
                        LazyProps { run: None, items: pv(*k0, *n).into_iter() }
                    }
                }),
                Op::LWithProps { n, k0 } => {
                    let taken = match ctx.frames.last_mut() {
                        Some(RFrame::Local(slot)) => slot.take(),
                        _ => None,
                    };
                    let at = ctx.frames.len() - 1;
                    if let Some(sp) = taken {
                        let sp = sp.with_properties(|| {
                            if *k0 % 2 == 1 {
                                LazyProps { run: Some(run), items: pv(*k0, *n).into_iter() }
                            } else {
                                run();
                                LazyProps { run: None, items: pv(*k0, *n).into_iter() }
                            }
                        });
                        let ctx = unsafe { &mut *ctxp };
                        if let Some(RFrame::Local(slot)) = ctx.frames.get_mut(at) {
                            *slot = Some(sp);
                        }
                    }
                }
                Op::Child { l, parents, single, np, k0 } => {
                    let sp = {
                        let g = lock(&SPANS);
                        let m = g.as_ref().unwrap();
                        if *single {
                            Span::enter_with_parent(sname(*l), &m[&parents[0]])
                        } else {
                            enter_with_parents_varied(sname(*l), *l as u32, parents.iter().map(|p| &m[p]).collect())
                        }
                    };
                    let sp = sp.with_properties(|| {
                        if *k0 % 2 == 1 {
                            LazyProps { run: Some(run), items: pv(*k0, *np).into_iter() }
                        } else {
                            run();
                            LazyProps { run: None, items: pv(*k0, *np).into_iter() }
                        }
                    });
                    put_span(*l, sp);
                }
                Op::ChildLocal { l, np, k0 } => {
                    let sp = Span::enter_with_local_parent(sname(*l)).with_properties(|| {
                        if *k0 % 2 == 1 {
                            LazyProps { run: Some(run), items: pv(*k0, *np).into_iter() }
                        } else {
                            run();
                            LazyProps { run: None, items: pv(*k0, *np).into_iter() }
                        }
                    });
                    put_span(*l, sp);
                }
                Op::LEnter { l, np, k0 } => {
                    let sp = LocalSpan::enter_with_local_parent(lname(*l));
                    ctx.frames.push(RFrame::Local(None));
                    let at = ctx.frames.len() - 1;
                    let sp = sp.with_properties(|| {
                        if *k0 % 2 == 1 {
                            LazyProps { run: Some(run), items: pv(*k0, *np).into_iter() }
                        } else {
                            run();
                            LazyProps { run: None, items: pv(*k0, *np).into_iter() }
                        }
                    });
                    let ctx = unsafe { &mut *ctxp };
                    if let Some(RFrame::Local(slot)) = ctx.frames.get_mut(at) {
                        *slot = Some(sp);
                    }
                }
                other => panic!("harness: unsupported re-entrant host {:?}", other),
            }
            let ctx = unsafe { &mut *ctxp };
            let eix = ctx.next_flat;
            ctx.next_flat += 1;
            // closures invoked by the host itself (the nested steps account for their own)
            let host_closures = if CLOSURES.load(Ordering::SeqCst) > c1 { 1 } else { 0 };
            // the host's own effect (e.g. entering the local span) lies between t0 and now
            set_result(ix, OpResult { t0, t1: now_ns(), sys0, closures: 0, kind: ResKind::None, done: true });
            set_result(eix, OpResult { t0, t1: now_ns(), sys0, closures: host_closures, kind: ResKind::None, done: true });
            return;
        }
    }
    let t1 = now_ns();
    let _ = t1_override;
    set_result(
        ix,
        OpResult {
            t0,
            t1,
            sys0,
            closures: CLOSURES.load(Ordering::SeqCst) - c0,
            kind,
            done: true,
        },
    );
}

// ------------------------------------------------------------------------------------------------
// threads

fn worker_main(t: usize) {
    set_lt(t);
    // warm up: make this OS thread register its command queue now (an unsampled root sends one
    // forced commit for the reserved collect id and nothing else)
    {
        let r = Span::root("warm", SpanContext::new(TraceId(1), SpanId(1)).sampled(false));
        drop(r);
    }
    let mut ctx = WorkerCtx { t, frames: Vec::new(), next_flat: 0, prepared: std::collections::HashMap::new() };
    {
        let mut g = lock(&CTL);
        let c = ctl(&mut g);
        c.wstate[t] = WState::Idle;
        c.turn = Turn::Main;
        CV.notify_all();
    }
    loop {
        let cmd = {
            let mut g = wait_turn(Turn::Worker(t));
            let c = ctl(&mut g);
            match c.wcmd[t].take() {
                Some(cmd) => {
                    c.wstate[t] = WState::Running;
                    c.send_count[t] = 0;
                    c.yield_count[t] = 0;
                    cmd
                }
                None => {
                    // spurious: give the turn back
                    c.turn = Turn::Main;
                    CV.notify_all();
                    continue;
                }
            }
        };
        match cmd {
            WCmd::Quit => return,
            WCmd::Run(top) => {
                if matches!(top.op, Op::Exit) {
                    // leave without handing the turn back: the scheduler joins this OS thread so
                    // that its thread-local destructors have completed before anything else runs
                    return;
                }
                ctx.next_flat = top.flat_base;
                let r = catch_unwind(AssertUnwindSafe(|| exec_op(&mut ctx, &top.op)));
                if let Err(e) = r {
                    let msg = panic_msg(&e);
                    set_result(
                        top.flat_base,
                        OpResult { t0: 0, t1: 0, sys0: 0, closures: 0, kind: ResKind::Panic(msg), done: true },
                    );
                }
                let mut g = lock(&CTL);
                let c = ctl(&mut g);
                c.wstate[t] = WState::Done;
                c.turn = Turn::Main;
                CV.notify_all();
            }
        }
    }
}

pub fn panic_msg(e: &Box<dyn std::any::Any + Send>) -> String {
    if let Some(s) = e.downcast_ref::<&str>() {
        s.to_string()
    } else if let Some(s) = e.downcast_ref::<String>() {
        s.clone()
    } else {
        "<non-string panic payload>".to_string()
    }
}

fn collector_main() {
    set_lt(LT_COLLECTOR);
    loop {
        {
            let mut g = wait_turn(Turn::Collector);
            let c = ctl(&mut g);
            if c.cquit {
                return;
            }
            match c.ccmd.take() {
                Some(stepped) => {
                    c.cstepped = stepped;
                    c.cstate = CState::Running;
                }
                None => {
                    c.turn = Turn::Main;
                    CV.notify_all();
                    continue;
                }
            }
        }
        fastrace::verif::run_collector_cycle();
        let mut g = lock(&CTL);
        let c = ctl(&mut g);
        c.cstate = CState::Done;
        c.cstepped = false;
        c.turn = Turn::Main;
        CV.notify_all();
    }
}

// ------------------------------------------------------------------------------------------------
// engine (used from the main thread only)

#[derive(Debug)]
pub enum EngineError {
    /// a logical thread did not hand the baton back within the watchdog
    Watchdog(String),
}

pub struct Engine {
    pub nthreads: usize,
    handles: Vec<Option<std::thread::JoinHandle<()>>>,
    chandle: Option<std::thread::JoinHandle<()>>,
    pub watchdog: Duration,
    pub spawned: usize,
    pub exited: usize,
}

pub static INSTALLED: AtomicUsize = AtomicUsize::new(0);

impl Engine {
    /// Installs the reporter (once per process), the hook, and starts the collector logical thread.
    pub fn start(nthreads: usize, cancelable: bool, interval: Duration) -> Engine {
        set_lt(LT_MAIN);
        now_ns();
        *lock(&SPANS) = Some(HashMap::new());
        *lock(&SETS) = Some(HashMap::new());
        *lock(&ADAPTERS) = Some(HashMap::new());
        *lock(&CTL) = Some(Ctl {
            turn: Turn::Main,
            wcmd: (0..nthreads).map(|_| None).collect(),
            wstate: vec![WState::Idle; nthreads],
            park_mask: vec![0; nthreads],
            send_count: vec![0; nthreads],
            yield_count: vec![0; nthreads],
            ccmd: None,
            cstate: CState::Idle,
            cstepped: false,
            cquit: false,
        });
        fastrace::verif::set_hook(Some(Arc::new(hook)));
        ENGINE_CANCELABLE.store(cancelable, Ordering::SeqCst);
        if INSTALLED.fetch_add(1, Ordering::SeqCst) == 0 {
            let before = CYCLES_ENDED.load(Ordering::SeqCst);
            fastrace::set_reporter(
                HarnessReporter,
                Config::default().cancelable(cancelable).report_interval(interval),
            );
            // the background thread runs one cycle immediately; wait for it so that it cannot
            // overlap with controlled executions (with a long interval it then sleeps for good)
            let t0 = Instant::now();
            while CYCLES_ENDED.load(Ordering::SeqCst) == before && t0.elapsed() < Duration::from_secs(10) {
                std::thread::sleep(Duration::from_millis(1));
            }
            lock(&REPORTS).clear();
            lock(&HOOKLOG).clear();
        }
        let chandle = std::thread::Builder::new()
            .name("hx-collector".into())
            .spawn(collector_main)
            .unwrap();
        Engine {
            nthreads,
            handles: (0..nthreads).map(|_| None).collect(),
            chandle: Some(chandle),
            watchdog: Duration::from_secs(60),
            spawned: 0,
            exited: 0,
        }
    }

    fn wait_main(&self, what: &str) -> Result<MutexGuard<'static, Option<Ctl>>, EngineError> {
        let deadline = Instant::now() + self.watchdog;
        let mut g = lock(&CTL);
        loop {
            if g.as_ref().map(|c| c.turn == Turn::Main).unwrap_or(false) {
                return Ok(g);
            }
            let now = Instant::now();
            if now >= deadline {
                return Err(EngineError::Watchdog(what.to_string()));
            }
            let (ng, _) = CV.wait_timeout(g, deadline - now).unwrap_or_else(|e| e.into_inner());
            g = ng;
        }
    }

    pub fn is_alive(&self, t: usize) -> bool {
        self.handles[t].is_some()
    }

    pub fn live_workers(&self) -> usize {
        self.handles.iter().filter(|h| h.is_some()).count()
    }

    /// Spawn the OS thread of logical thread t (it warms up and parks). The collector must be idle.
    pub fn ensure_worker(&mut self, t: usize) -> Result<bool, EngineError> {
        if self.handles[t].is_some() {
            return Ok(false);
        }
        {
            let mut g = lock(&CTL);
            let c = ctl(&mut g);
            c.turn = Turn::Worker(t);
            c.wstate[t] = WState::Running;
            c.wcmd[t] = None;
            c.park_mask[t] = 0;
            c.send_count[t] = 0;
            c.yield_count[t] = 0;
        }
        let h = std::thread::Builder::new()
            .name(format!("hx-w{}", t))
            .spawn(move || worker_main(t))
            .unwrap();
        self.handles[t] = Some(h);
        self.spawned += 1;
        drop(self.wait_main("worker spawn")?);
        Ok(true)
    }

    /// Start (or continue) top-level op on worker t. Returns the state the worker stopped in.
    pub fn run_op(&mut self, t: usize, top: Option<Arc<TopOp>>, park_mask: u64) -> Result<WState, EngineError> {
        let is_exit = top.as_ref().map(|o| matches!(o.op, Op::Exit)).unwrap_or(false);
        {
            let mut g = lock(&CTL);
            let c = ctl(&mut g);
            if let Some(top) = top {
                c.wcmd[t] = Some(WCmd::Run(top));
                c.park_mask[t] = park_mask;
            }
            c.turn = Turn::Worker(t);
            CV.notify_all();
        }
        if is_exit {
            if let Some(h) = self.handles[t].take() {
                let _ = h.join();
            }
            self.exited += 1;
            let mut g = lock(&CTL);
            let c = ctl(&mut g);
            c.wstate[t] = WState::Idle;
            c.turn = Turn::Main;
            return Ok(WState::Done);
        }
        let mut g = self.wait_main("worker op")?;
        let c = ctl(&mut g);
        Ok(c.wstate[t].clone())
    }

    /// Run a whole collector cycle without stopping.
    pub fn cycle_atomic(&mut self) -> Result<(), EngineError> {
        {
            let mut g = lock(&CTL);
            let c = ctl(&mut g);
            debug_assert!(matches!(c.cstate, CState::Idle | CState::Done));
            c.ccmd = Some(false);
            c.turn = Turn::Collector;
            CV.notify_all();
        }
        let mut g = self.wait_main("atomic cycle")?;
        ctl(&mut g).cstate = CState::Idle;
        Ok(())
    }

    /// Begin a stepped cycle or advance it to its next instrumentation point.
    pub fn cycle_step(&mut self) -> Result<CState, EngineError> {
        {
            let mut g = lock(&CTL);
            let c = ctl(&mut g);
            match c.cstate {
                CState::Idle | CState::Done => {
                    c.ccmd = Some(true);
                }
                _ => {}
            }
            c.turn = Turn::Collector;
            CV.notify_all();
        }
        let mut g = self.wait_main("collector step")?;
        let c = ctl(&mut g);
        let st = c.cstate.clone();
        if st == CState::Done {
            c.cstate = CState::Idle;
        }
        Ok(st)
    }

    pub fn collector_mid_cycle(&self) -> bool {
        let g = lock(&CTL);
        matches!(g.as_ref().unwrap().cstate, CState::Parked(_))
    }

    /// Let a stepped cycle run to its end.
    pub fn cycle_finish(&mut self) -> Result<(), EngineError> {
        if !self.collector_mid_cycle() {
            return Ok(());
        }
        {
            let mut g = lock(&CTL);
            let c = ctl(&mut g);
            c.cstepped = false;
            c.turn = Turn::Collector;
            CV.notify_all();
        }
        let mut g = self.wait_main("collector finish")?;
        ctl(&mut g).cstate = CState::Idle;
        Ok(())
    }

    pub fn flush_from_main(&mut self) {
        fastrace::flush();
    }

    /// Let every worker OS thread exit (frames must be empty); they are respawned on demand.
    pub fn retire_workers(&mut self) -> Result<(), EngineError> {
        for t in 0..self.nthreads {
            if self.handles[t].is_some() {
                self.run_op(t, Some(Arc::new(TopOp { op: Op::Exit, flat_base: 0 })), 0)?;
            }
        }
        Ok(())
    }

    /// Stop all logical threads (frames must be empty).
    pub fn shutdown(&mut self) {
        for t in 0..self.nthreads {
            if self.handles[t].is_some() {
                {
                    let mut g = lock(&CTL);
                    let c = ctl(&mut g);
                    c.wcmd[t] = Some(WCmd::Quit);
                    c.turn = Turn::Worker(t);
                    CV.notify_all();
                }
                if let Some(h) = self.handles[t].take() {
                    let _ = h.join();
                }
                let mut g = lock(&CTL);
                ctl(&mut g).turn = Turn::Main;
            }
        }
        {
            let mut g = lock(&CTL);
            let c = ctl(&mut g);
            c.cquit = true;
            c.turn = Turn::Collector;
            CV.notify_all();
        }
        if let Some(h) = self.chandle.take() {
            let _ = h.join();
        }
        let mut g = lock(&CTL);
        ctl(&mut g).turn = Turn::Main;
    }
}

pub fn take_reports() -> Vec<ReportCall> {
    std::mem::take(&mut *lock(&REPORTS))
}

pub fn take_hooklog() -> Vec<HookEv> {
    std::mem::take(&mut *lock(&HOOKLOG))
}

pub fn take_results() -> Vec<OpResult> {
    std::mem::take(&mut *lock(&RESULTS))
}

pub fn clear_objects() {
    // dropping leftover spans here would run fastrace code on the main thread; callers make sure
    // programs end with every span finished, so these maps are empty
    lock(&SPANS).as_mut().unwrap().clear();
    lock(&SETS).as_mut().unwrap().clear();
    lock(&ADAPTERS).as_mut().unwrap().clear();
}
