//! Random program generator. Programs are generated against the shadow model, so every
//! operation is valid in the state it is issued in (guards and local spans are released in
//! reverse order of creation, spans are alive when used).

use std::collections::HashSet;
use std::sync::atomic::{AtomicU32, Ordering};

use crate::model::*;
use crate::ops::*;
use crate::rng::Rng;
use crate::sched::Program;

static NEXT_SPAN: AtomicU32 = AtomicU32::new(1);
static NEXT_LOCAL: AtomicU32 = AtomicU32::new(1);
static NEXT_KEY: AtomicU32 = AtomicU32::new(1);
static NEXT_EVENT: AtomicU32 = AtomicU32::new(1);
static NEXT_SET: AtomicU32 = AtomicU32::new(1);
static NEXT_ADAPTER: AtomicU32 = AtomicU32::new(1);

pub fn new_span_label() -> u32 {
    NEXT_SPAN.fetch_add(1, Ordering::SeqCst)
}
pub fn new_local_label() -> u32 {
    NEXT_LOCAL.fetch_add(1, Ordering::SeqCst)
}
pub fn new_keys(n: u8) -> u32 {
    NEXT_KEY.fetch_add(n as u32 + 1, Ordering::SeqCst)
}
pub fn new_event() -> u32 {
    NEXT_EVENT.fetch_add(1, Ordering::SeqCst)
}
pub fn new_set() -> u32 {
    NEXT_SET.fetch_add(1, Ordering::SeqCst)
}
pub fn new_adapter() -> u32 {
    NEXT_ADAPTER.fetch_add(1, Ordering::SeqCst)
}

/// Weights of the operation kinds (0 disables a kind).
#[derive(Clone, Debug)]
pub struct Weights {
    pub root: u32,
    pub child: u32,
    pub child_multi: u32,
    pub child_local: u32,
    pub noop: u32,
    pub guard: u32,
    pub lenter: u32,
    pub lcstart: u32,
    pub pop: u32,
    pub pushset: u32,
    pub torecords: u32,
    pub addprops: u32,
    pub addevent: u32,
    pub laddprops: u32,
    pub laddevent: u32,
    pub lwithprops: u32,
    pub cancel: u32,
    pub finish: u32,
    pub fromspan: u32,
    pub curlocal: u32,
    pub elapsed: u32,
    pub rootfromctx: u32,
    pub sleep: u32,
    pub exit: u32,
    pub anew: u32,
    pub acall: u32,
    pub adrop: u32,
    pub reent: u32,
    pub unwind: u32,
    pub prepevent: u32,
    pub lc_collect_open: u32,
}

impl Default for Weights {
    fn default() -> Self {
        Weights {
            root: 8,
            child: 10,
            child_multi: 4,
            child_local: 5,
            noop: 1,
            guard: 9,
            lenter: 12,
            lcstart: 2,
            pop: 22,
            pushset: 3,
            torecords: 0,
            addprops: 5,
            addevent: 4,
            laddprops: 4,
            laddevent: 4,
            lwithprops: 3,
            cancel: 0,
            finish: 14,
            fromspan: 1,
            curlocal: 1,
            elapsed: 0,
            rootfromctx: 0,
            sleep: 0,
            exit: 2,
            anew: 0,
            acall: 0,
            adrop: 0,
            reent: 0,
            unwind: 0,
            prepevent: 0,
            lc_collect_open: 1,
        }
    }
}

#[derive(Clone, Debug)]
pub struct Profile {
    pub threads: (usize, usize),
    pub ops: (usize, usize),
    pub w: Weights,
    /// per mille
    pub p_unsampled: u32,
    pub p_props: u32,
    pub p_noop_parent: u32,
    pub str_mode_decorated: u32,
    pub boundary_ids: bool,
    pub same_trace_parents: bool,
    pub max_depth: usize,
    pub max_parents: usize,
    pub sleep_us: (u32, u32),
    /// this many sleeps of the program last a little over one second (durations whose seconds
    /// part is not zero)
    pub long_sleeps: u32,
    /// finish roots last in the close-out (needed to get complete traces with cancelable)
    pub p_roots_last: u32,
    /// probability (per mille) that a root is finished only after all its descendants
    pub cancelable: bool,
    /// adapter kinds allowed
    pub adapter_kinds: Vec<AKind>,
    pub p_enter_on_poll: u32,
    /// surround scopes with current_local_parent() probes
    pub probe_scopes: bool,
    /// per mille: allow a scope on a span that already is this thread's local parent
    pub p_reguard: u32,
    /// per mille per generated operation: a scope on a span that belongs to no trace (created from
    /// an empty or all-noop parent set, or a no-op span) with probes and local operations inside
    pub p_traceless_scope: u32,
    /// per mille per generated operation: a scope on a span whose parents lie in traces with
    /// different sampling decisions (either order), with local spans, a thread-safe child of the
    /// open local span, attachments and context probes inside
    pub p_mixed_scope: u32,
}

impl Default for Profile {
    fn default() -> Self {
        Profile {
            threads: (1, 4),
            ops: (10, 45),
            w: Weights::default(),
            p_unsampled: 80,
            p_props: 300,
            p_noop_parent: 30,
            str_mode_decorated: 200,
            boundary_ids: false,
            same_trace_parents: false,
            max_depth: 10,
            max_parents: 4,
            sleep_us: (20, 400),
            long_sleeps: 0,
            p_roots_last: 600,
            cancelable: false,
            adapter_kinds: vec![AKind::Future],
            p_enter_on_poll: 300,
            probe_scopes: false,
            p_reguard: 60,
            p_traceless_scope: 8,
            p_mixed_scope: 10,
        }
    }
}

const BOUNDARY_TRACE: [u128; 6] = [0, 1, u128::MAX, 1 << 127, 0x5555_5555_5555_5555_5555_5555_5555_5555, 1 << 64];
const BOUNDARY_SPAN: [u64; 6] = [0, 1, u64::MAX, 1 << 63, 0xAAAA_AAAA_AAAA_AAAA, 1 << 32];

pub struct Gen<'a> {
    pub rng: &'a mut Rng,
    pub pf: &'a Profile,
    pub prog: Program,
    used_tids: HashSet<u128>,
    ctx_ops: Vec<usize>,
    /// set id -> trace ids it has been pushed into
    set_pushed: std::collections::HashMap<u32, HashSet<u128>>,
    set_parents: std::collections::HashMap<u32, HashSet<u32>>,
    depth_call: usize,
    nested_floor: usize,
    pending_ctx: Vec<usize>,
    in_call: Vec<u32>,
    /// spans the random operations must leave alone, and threads that must not exit
    reserved: HashSet<u32>,
    no_exit: HashSet<usize>,
    /// per thread: flat index of the probe taken before each open frame was pushed
    probe_stack: Vec<Vec<Option<usize>>>,
    long_sleeps_done: u32,
    /// events built ahead of their use, per thread: (thread, e, np, k0)
    prepared: Vec<(usize, u32, u8, u32)>,
}

impl<'a> Gen<'a> {
    pub fn new(rng: &'a mut Rng, pf: &'a Profile, id: u64) -> Gen<'a> {
        let nthreads = rng.range(pf.threads.0, pf.threads.1);
        let str_mode = if rng.chance(pf.str_mode_decorated, 1000) { 1 } else { 0 };
        set_str_mode(str_mode);
        let auto_base = NEXT_LOCAL.fetch_add(100_000, Ordering::SeqCst) + 50_000;
        let probe_stack = vec![vec![]; nthreads];
        Gen {
            rng,
            pf,
            prog: Program::new(id, nthreads, pf.cancelable, str_mode, auto_base),
            probe_stack,
            long_sleeps_done: 0,
            prepared: vec![],
            used_tids: HashSet::new(),
            ctx_ops: vec![],
            set_pushed: Default::default(),
            set_parents: Default::default(),
            depth_call: 0,
            nested_floor: 0,
            pending_ctx: vec![],
            in_call: vec![],
            reserved: HashSet::new(),
            no_exit: HashSet::new(),
        }
    }

    fn m(&self) -> &Model {
        &self.prog.model
    }

    fn np(&mut self) -> (u8, u32) {
        if self.rng.chance(self.pf.p_props, 1000) {
            let n = self.rng.range(1, 3) as u8;
            (n, new_keys(n))
        } else {
            (0, 0)
        }
    }

    fn fresh_tid(&mut self) -> u128 {
        loop {
            let t = if self.pf.boundary_ids && self.rng.chance(1, 3) {
                *self.rng.pick(&BOUNDARY_TRACE)
            } else {
                self.rng.u128()
            };
            if self.used_tids.insert(t) {
                return t;
            }
            if self.used_tids.len() > 4 && self.pf.boundary_ids {
                // boundary values exhausted: fall through to random next round
                let t = self.rng.u128();
                if self.used_tids.insert(t) {
                    return t;
                }
            }
        }
    }

    fn span_id_value(&mut self) -> u64 {
        if self.pf.boundary_ids && self.rng.chance(1, 3) {
            *self.rng.pick(&BOUNDARY_SPAN)
        } else {
            self.rng.next()
        }
    }

    fn item_tids(&self, span: u32) -> Vec<u128> {
        self.m().spans[&span].items.iter().map(|i| self.m().traces[i.trace].trace_id).collect()
    }

    /// choose up to n parents whose combined items have pairwise distinct trace ids (unless the
    /// profile allows parents in one trace)
    fn pick_parents(&mut self, n: usize) -> Vec<u32> {
        let alive: Vec<u32> = self.m().alive_spans().into_iter().filter(|s| !self.reserved.contains(s)).collect();
        let mut cand = alive.clone();
        self.rng.shuffle(&mut cand);
        let mut out = vec![];
        let mut tids: HashSet<u128> = HashSet::new();
        for s in cand {
            if out.len() >= n {
                break;
            }
            let sp = &self.m().spans[&s];
            if !sp.inner && !self.rng.chance(self.pf.p_noop_parent, 1000) {
                continue;
            }
            let it = self.item_tids(s);
            if !self.pf.same_trace_parents {
                let mut local = HashSet::new();
                if it.iter().any(|t| tids.contains(t) || !local.insert(*t)) {
                    continue;
                }
            }
            tids.extend(it);
            out.push(s);
        }
        out
    }

    /// Generate one operation for thread t in the current state (None: nothing applicable).
    pub fn gen_op(&mut self, t: usize, nested: bool) -> Option<Op> {
        let w = &self.pf.w;
        let alive: Vec<u32> = self.m().alive_spans().into_iter().filter(|s| !self.reserved.contains(s)).collect();
        let frames = self.m().threads[t].frames.len();
        let top_is_local = matches!(self.m().threads[t].frames.last(), Some(Frame::Local { .. }));
        let has_alive = !alive.is_empty();
        let sets: Vec<u32> = {
            let mut v: Vec<u32> = self.m().sets.keys().copied().collect();
            v.sort_unstable();
            v
        };
        let adapters: Vec<u32> = {
            let mut v: Vec<u32> = self
                .m()
                .adapters
                .values()
                .filter(|a| a.alive && !self.in_call.contains(&a.a))
                .map(|a| a.a)
                .collect();
            v.sort_unstable();
            v
        };
        // the contracts of Future / Stream / Sink: no poll after completion, after the end of the
        // stream, after close (or after a panic)
        let callable: Vec<u32> = adapters.iter().copied().filter(|a| !self.m().adapters[a].done).collect();
        let deep = frames >= self.pf.max_depth;
        let base_frames = if nested { self.nested_floor } else { 0 };
        let can_pop = frames > base_frames;
        let weights = [
            w.root,
            if has_alive { w.child } else { 0 },
            if has_alive { w.child_multi } else { 0 },
            w.child_local,
            w.noop,
            if has_alive && !deep { w.guard } else { 0 },
            if !deep { w.lenter } else { 0 },
            if !deep { w.lcstart } else { 0 },
            if can_pop { w.pop } else { 0 },
            if has_alive && !sets.is_empty() { w.pushset } else { 0 },
            if !sets.is_empty() { w.torecords } else { 0 },
            if has_alive { w.addprops } else { 0 },
            if has_alive { w.addevent } else { 0 },
            w.laddprops,
            w.laddevent,
            if top_is_local && can_pop { w.lwithprops } else { 0 },
            if has_alive { w.cancel } else { 0 },
            if has_alive { w.finish } else { 0 },
            if has_alive { w.fromspan } else { 0 },
            w.curlocal,
            if has_alive { w.elapsed } else { 0 },
            if !self.ctx_ops.is_empty() { w.rootfromctx } else { 0 },
            w.sleep,
            if frames == 0 && !nested && !self.no_exit.contains(&t) { w.exit } else { 0 },
            w.anew,
            if !callable.is_empty() && self.depth_call < 2 { w.acall } else { 0 },
            if !adapters.is_empty() { w.adrop } else { 0 },
            if self.depth_call < 2 { w.reent } else { 0 },
            if !nested && self.m().can_collect_open(t) { w.lc_collect_open } else { 0 },
            if self.depth_call < 2 { w.unwind } else { 0 },
            w.prepevent,
        ];
        if weights.iter().all(|x| *x == 0) {
            return None;
        }
        // long sleeps are placed where a local span is open on this thread
        let long_now = self.long_sleeps_done < self.pf.long_sleeps
            && matches!(self.m().threads[t].frames.last(), Some(Frame::Local { l: Some(_) }))
            && self.rng.chance(1, 2);
        let k = if long_now { 22 } else { self.rng.weighted(&weights) };
        let op = match k {
            0 => {
                let (np, k0) = self.np();
                let sampled = !self.rng.chance(self.pf.p_unsampled, 1000);
                Op::Root { l: new_span_label(), trace_id: self.fresh_tid(), parent: self.span_id_value(), sampled, np, k0 }
            }
            1 => {
                let (np, k0) = self.np();
                let p = *self.rng.pick(&alive);
                if !self.m().spans[&p].inner && !self.rng.chance(self.pf.p_noop_parent.max(100), 1000) {
                    return None;
                }
                Op::Child { l: new_span_label(), parents: vec![p], single: true, np, k0 }
            }
            2 => {
                let (np, k0) = self.np();
                let n = self.rng.range(0, self.pf.max_parents);
                let parents = self.pick_parents(n);
                Op::Child { l: new_span_label(), parents, single: false, np, k0 }
            }
            3 => {
                let (np, k0) = self.np();
                Op::ChildLocal { l: new_span_label(), np, k0 }
            }
            4 => Op::Noop { l: new_span_label() },
            5 => {
                let span = *self.rng.pick(&alive);
                // a second scope on the same span on this thread is legal but rare in practice
                let mine = self.m().threads[t].frames.iter().any(|f| match f {
                    Frame::Scope { line: Some(li) } => self.m().lines[*li].kind == LineKind::Guard(span),
                    _ => false,
                });
                if mine && !self.rng.chance(self.pf.p_reguard, 1000) {
                    return None;
                }
                Op::Guard { span }
            }
            6 => {
                let (np, k0) = self.np();
                Op::LEnter { l: new_local_label(), np, k0 }
            }
            7 => Op::LcStart { set: new_set() },
            8 => Op::Pop,
            9 => {
                let set = *self.rng.pick(&sets);
                let n = self.rng.range(1, self.pf.max_parents.max(1));
                let mut parents = self.pick_parents(n);
                if !self.pf.same_trace_parents {
                    let pushed = self.set_pushed.entry(set).or_default().clone();
                    parents.retain(|p| self.item_tids(*p).iter().all(|t| !pushed.contains(t)));
                }
                // never the same set twice under the same span
                let done = self.set_parents.entry(set).or_default().clone();
                parents.retain(|p| !done.contains(p));
                self.set_parents.entry(set).or_default().extend(parents.iter().copied());
                if parents.is_empty() {
                    return None;
                }
                for p in &parents {
                    let tids = self.item_tids(*p);
                    self.set_pushed.entry(set).or_default().extend(tids);
                }
                Op::PushSet { set, parents }
            }
            10 => Op::ToRecords { set: *self.rng.pick(&sets), trace_id: self.rng.u128(), span_id: self.span_id_value() },
            11 => {
                let n = self.rng.range(1, 3) as u8;
                Op::AddProps { span: *self.rng.pick(&alive), n, k0: new_keys(n) }
            }
            12 => {
                let span = *self.rng.pick(&alive);
                match self.take_prepared(t) {
                    Some((e, np, k0)) => Op::AddEvent { span, e, np, k0 },
                    None => {
                        let np = self.rng.range(0, 2) as u8;
                        Op::AddEvent { span, e: new_event(), np, k0: new_keys(np) }
                    }
                }
            }
            13 => {
                let n = self.rng.range(1, 3) as u8;
                Op::LAddProps { n, k0: new_keys(n) }
            }
            14 => match self.take_prepared(t) {
                Some((e, np, k0)) => Op::LAddEvent { e, np, k0 },
                None => {
                    let np = self.rng.range(0, 2) as u8;
                    Op::LAddEvent { e: new_event(), np, k0: new_keys(np) }
                }
            },
            15 => {
                let n = self.rng.range(1, 2) as u8;
                Op::LWithProps { n, k0: new_keys(n) }
            }
            16 => Op::Cancel { span: *self.rng.pick(&alive) },
            17 => Op::Finish { span: *self.rng.pick(&alive) },
            18 => Op::FromSpan { span: *self.rng.pick(&alive) },
            19 => Op::CurLocal,
            20 => Op::Elapsed { span: *self.rng.pick(&alive) },
            21 => {
                let from = *self.rng.pick(&self.ctx_ops);
                Op::RootFromCtx { l: new_span_label(), from, via_text: self.rng.chance(1, 2) }
            }
            22 => {
                if long_now {
                    self.long_sleeps_done += 1;
                    Op::Sleep { us: self.rng.range(1_000_100, 1_250_000) as u32 }
                } else {
                    Op::Sleep { us: self.rng.range(self.pf.sleep_us.0 as usize, self.pf.sleep_us.1 as usize) as u32 }
                }
            }
            23 => Op::Exit,
            24 => {
                let kind = *self.rng.pick(&self.pf.adapter_kinds);
                let span = if has_alive && self.rng.chance(9, 10) { Some(*self.rng.pick(&alive)) } else { None };
                let poll_name = if kind == AKind::Future && self.rng.chance(self.pf.p_enter_on_poll, 1000) {
                    Some(0)
                } else {
                    None
                };
                // now and then the inner object owns other spans (children held across awaits)
                let mut owned = vec![];
                if self.rng.chance(1, 3) {
                    for s in &alive {
                        if Some(*s) != span && owned.len() < 2 && self.rng.chance(1, 3) {
                            owned.push(*s);
                        }
                    }
                }
                Op::ANew { a: new_adapter(), kind, span, poll_name, owned }
            }
            25 => {
                let a = *self.rng.pick(&callable);
                return Some(self.gen_call(t, a));
            }
            26 => Op::ADrop { a: *self.rng.pick(&adapters) },
            27 => return self.gen_reent(t),
            29 => return self.gen_unwind(t),
            30 => {
                // not a label the deprecated entry points take (e % 3 == 2): those build their own event
                let mut e = new_event();
                while e % 3 == 2 {
                    e = new_event();
                }
                let np = self.rng.range(0, 2) as u8;
                let k0 = new_keys(np);
                self.prepared.push((t, e, np, k0));
                Op::PrepEvent { e, np, k0 }
            }
            _ => Op::LcCollectOpen,
        };
        Some(op)
    }

    /// a prepared event of thread `t`, two times out of three when there is one
    fn take_prepared(&mut self, t: usize) -> Option<(u32, u8, u32)> {
        let i = self.prepared.iter().position(|p| p.0 == t)?;
        if !self.rng.chance(2, 3) {
            return None;
        }
        let (_, e, np, k0) = self.prepared.remove(i);
        Some((e, np, k0))
    }

    /// A few operations, then a panic that unwinds through the scopes they left open.
    fn gen_unwind(&mut self, t: usize) -> Option<Op> {
        let saved_model = self.prog.model.clone();
        let saved_floor = self.nested_floor;
        let saved_ctx_ops = self.ctx_ops.clone();
        self.prog.model.set_thread(t);
        self.prog.model.scratch_begin_unwind(t);
        self.nested_floor = self.prog.model.threads[t].frames.len();
        self.depth_call += 1;
        let mut steps = vec![];
        let k = self.rng.range(2, 7);
        for _ in 0..k {
            if let Some(op) = self.gen_op(t, true) {
                let flat = self.prog.model.apply(t, &op);
                if matches!(op, Op::FromSpan { .. } | Op::CurLocal) {
                    self.ctx_ops.push(flat);
                }
                steps.push(op);
            }
        }
        self.depth_call -= 1;
        // spans the steps created and still hold: some of them are locals of the panicking code
        let created: Vec<u32> = steps
            .iter()
            .filter_map(|op| match op {
                Op::Root { l, .. } | Op::Child { l, .. } | Op::ChildLocal { l, .. } | Op::Noop { l } | Op::RootFromCtx { l, .. } => Some(*l),
                _ => None,
            })
            .collect();
        let alive_now = self.prog.model.alive_spans();
        let mut drops: Vec<u32> = created.into_iter().filter(|l| alive_now.contains(l) && !self.reserved.contains(l)).filter(|_| self.rng.chance(2, 3)).collect();
        drops.reverse();
        self.nested_floor = saved_floor;
        self.prog.model = saved_model;
        let keep: Vec<usize> = self.ctx_ops.iter().copied().filter(|f| !saved_ctx_ops.contains(f)).collect();
        self.ctx_ops = saved_ctx_ops;
        self.pending_ctx = keep;
        Some(Op::Unwind { steps, drops })
    }

    /// A closure-taking operation whose closure itself runs a few operations.
    fn gen_reent(&mut self, t: usize) -> Option<Op> {
        let alive = self.m().alive_spans();
        let top_is_local = matches!(self.m().threads[t].frames.last(), Some(Frame::Local { .. }))
            && self.m().threads[t].frames.len() > self.nested_floor;
        let mut hosts: Vec<u8> = vec![1, 4, 5];
        if !alive.is_empty() {
            hosts.push(0);
            hosts.push(3);
        }
        if top_is_local {
            hosts.push(2);
        }
        let n = self.rng.range(1, 3) as u8;
        let k0 = new_keys(n);
        let host = match *self.rng.pick(&hosts) {
            0 => Op::AddProps { span: *self.rng.pick(&alive), n, k0 },
            1 => Op::LAddProps { n, k0 },
            2 => Op::LWithProps { n, k0 },
            3 => Op::Child { l: new_span_label(), parents: vec![*self.rng.pick(&alive)], single: true, np: n, k0 },
            4 => Op::ChildLocal { l: new_span_label(), np: n, k0 },
            _ => Op::LEnter { l: new_local_label(), np: n, k0 },
        };
        let saved_model = self.prog.model.clone();
        let saved_floor = self.nested_floor;
        let saved_ctx_ops = self.ctx_ops.clone();
        self.prog.model.set_thread(t);
        let runs = self.prog.model.scratch_begin_reent(t, &host);
        let mut steps = vec![];
        if runs {
            self.nested_floor = self.prog.model.threads[t].frames.len();
            self.depth_call += 1;
            let k = self.rng.range(1, 4);
            for _ in 0..k {
                if let Some(op) = self.gen_op(t, true) {
                    let flat = self.prog.model.apply(t, &op);
                    if matches!(op, Op::FromSpan { .. } | Op::CurLocal) {
                        self.ctx_ops.push(flat);
                    }
                    steps.push(op);
                }
            }
            while self.prog.model.threads[t].frames.len() > self.nested_floor {
                self.prog.model.apply(t, &Op::Pop);
                steps.push(Op::Pop);
            }
            self.depth_call -= 1;
        }
        self.nested_floor = saved_floor;
        self.prog.model = saved_model;
        let keep: Vec<usize> = self.ctx_ops.iter().copied().filter(|f| !saved_ctx_ops.contains(f)).collect();
        self.ctx_ops = saved_ctx_ops;
        self.pending_ctx = keep;
        Some(Op::Reent { host: Box::new(host), steps })
    }

    fn gen_call(&mut self, t: usize, a: u32) -> Op {
        let ad = self.m().adapters[&a].clone();
        let method = match ad.kind {
            AKind::Future => AMethod::Poll,
            AKind::Stream => AMethod::PollNext,
            AKind::Sink => *self.rng.pick(&[AMethod::PollReady, AMethod::StartSend, AMethod::PollFlush, AMethod::PollClose]),
            AKind::Duplex => {
                let mut ms = vec![];
                if !ad.ended {
                    ms.push(AMethod::PollNext);
                    ms.push(AMethod::PollNext);
                }
                if !ad.closed {
                    ms.extend([AMethod::PollReady, AMethod::StartSend, AMethod::PollFlush, AMethod::PollClose]);
                }
                *self.rng.pick(&ms)
            }
        };
        let outcome = match (ad.kind, method) {
            (AKind::Future, _) => {
                if ad.done || self.rng.chance(1, 2) { AOutcome::Pending } else { AOutcome::Value }
            }
            (AKind::Stream, _) => {
                if ad.done {
                    AOutcome::Pending
                } else {
                    *self.rng.pick(&[AOutcome::Pending, AOutcome::Value, AOutcome::Value, AOutcome::End])
                }
            }
            (AKind::Sink, AMethod::StartSend) | (AKind::Duplex, AMethod::StartSend) => *self.rng.pick(&[AOutcome::Value, AOutcome::Value, AOutcome::Error]),
            (AKind::Duplex, AMethod::PollNext) => *self.rng.pick(&[AOutcome::Pending, AOutcome::Value, AOutcome::Value, AOutcome::End]),
            (AKind::Sink, _) | (AKind::Duplex, _) => *self.rng.pick(&[AOutcome::Pending, AOutcome::Value, AOutcome::Value, AOutcome::Error]),
        };
        // now and then the inner object panics instead (only a live adapter; it is done afterwards)
        let outcome = if !ad.done && self.pf.w.unwind > 0 && self.rng.chance(1, 14) { AOutcome::Panic } else { outcome };
        // Generate the steps against a scratch copy of the model that has the adapter's scope
        // open, exactly as `Model::apply` will replay them.
        let saved_model = self.prog.model.clone();
        let saved_floor = self.nested_floor;
        let saved_ctx_ops = self.ctx_ops.clone();
        let call_flat = self.prog.model.ops.len();
        // open the scope in the scratch model by applying a call with no steps, minus its end:
        // emulate with the public pieces
        self.prog.model.scratch_begin_call(t, a);
        self.nested_floor = self.prog.model.threads[t].frames.len();
        self.depth_call += 1;
        self.in_call.push(a);
        let n = self.rng.range(0, 6);
        let mut steps = vec![];
        if ad.poll_name.is_some() {
            // fingerprint: lets the oracle tell the enter_on_poll records of one adapter apart
            let op = Op::LAddProps { n: 1, k0: new_keys(1) };
            self.prog.model.apply(t, &op);
            steps.push(op);
        }
        for _ in 0..n {
            if let Some(op) = self.gen_op(t, true) {
                let flat = self.prog.model.apply(t, &op);
                if matches!(op, Op::FromSpan { .. } | Op::CurLocal) {
                    self.ctx_ops.push(flat);
                }
                steps.push(op);
            }
        }
        // balance the frames opened inside the call (a panicking call leaves them to the unwinding)
        while outcome != AOutcome::Panic && self.prog.model.threads[t].frames.len() > self.nested_floor {
            self.prog.model.apply(t, &Op::Pop);
            steps.push(Op::Pop);
        }
        self.depth_call -= 1;
        self.in_call.pop();
        self.nested_floor = saved_floor;
        self.prog.model = saved_model;
        // context ops recorded inside the scratch run keep their flat indices: the real apply
        // assigns the same ones (call begin = call_flat, steps follow in order)
        let _ = call_flat;
        let keep: Vec<usize> = self.ctx_ops.iter().copied().filter(|f| !saved_ctx_ops.contains(f)).collect();
        self.ctx_ops = saved_ctx_ops;
        self.pending_ctx = keep;
        Op::ACall { a, method, steps, outcome }
    }

    fn push_raw(&mut self, t: usize, op: Op) -> usize {
        let flat = self.prog.push(t, op.clone());
        if matches!(op, Op::FromSpan { .. } | Op::CurLocal) {
            self.ctx_ops.push(flat);
        }
        if matches!(op, Op::ACall { .. } | Op::Reent { .. } | Op::Unwind { .. }) {
            let p = std::mem::take(&mut self.pending_ctx);
            self.ctx_ops.extend(p);
        }
        flat
    }

    /// Append a top-level operation; with `probe_scopes`, surround scopes and adapter calls with
    /// current_local_parent() probes that must agree (frame condition).
    pub fn push(&mut self, t: usize, op: Op) {
        let probe = self.pf.probe_scopes;
        match &op {
            Op::Guard { .. } | Op::LEnter { .. } | Op::LcStart { .. } => {
                let a = if probe { Some(self.push_raw(t, Op::CurLocal)) } else { None };
                self.push_raw(t, op);
                self.probe_stack[t].push(a);
            }
            Op::Pop => {
                self.push_raw(t, op);
                if let Some(Some(a)) = self.probe_stack[t].pop() {
                    let b = self.push_raw(t, Op::CurLocal);
                    self.prog.frame_pairs.push((a, b));
                }
            }
            Op::LcCollectOpen => {
                let before = self.prog.model.threads[t].frames.len();
                self.push_raw(t, op);
                let after = self.prog.model.threads[t].frames.len();
                for _ in after..before {
                    self.probe_stack[t].pop();
                }
            }
            Op::ACall { .. } if probe => {
                let a = self.push_raw(t, Op::CurLocal);
                self.push_raw(t, op);
                let b = self.push_raw(t, Op::CurLocal);
                self.prog.frame_pairs.push((a, b));
            }
            _ => {
                self.push_raw(t, op);
            }
        }
    }

    /// A local-parent scope on a span that belongs to no trace, with context probes, a child
    /// span, a local span and local attachments inside it.
    /// An adapter bound to a span that belongs to no trace, driven while another (real) span is
    /// the thread's local parent: the adapter's scope shadows the caller's for the call.
    fn traceless_adapter(&mut self, t: usize) {
        let l = new_span_label();
        match self.rng.below(3) {
            0 => self.push(t, Op::Child { l, parents: vec![], single: false, np: 0, k0: 0 }),
            1 => {
                let n1 = new_span_label();
                self.push(t, Op::Noop { l: n1 });
                self.push(t, Op::Child { l, parents: vec![n1], single: false, np: 0, k0: 0 });
            }
            _ => self.push(t, Op::Noop { l }),
        }
        let a = new_adapter();
        let kind = *self.rng.pick(&self.pf.adapter_kinds);
        self.push(t, Op::ANew { a, kind, span: Some(l), poll_name: None, owned: vec![] });
        let outer: Vec<u32> = self.m().alive_spans().into_iter().filter(|s| !self.reserved.contains(s)).collect();
        let guarded = !outer.is_empty() && self.m().threads[t].frames.len() + 3 < self.pf.max_depth;
        if guarded {
            let g = *self.rng.pick(&outer);
            self.push(t, Op::Guard { span: g });
        }
        let method = match kind {
            AKind::Future => AMethod::Poll,
            AKind::Stream | AKind::Duplex => AMethod::PollNext,
            AKind::Sink => AMethod::PollFlush,
        };
        let steps = vec![
            Op::CurLocal,
            Op::LEnter { l: new_local_label(), np: 0, k0: 0 },
            Op::LAddEvent { e: new_event(), np: 0, k0: 0 },
            Op::Pop,
            Op::ChildLocal { l: new_span_label(), np: 0, k0: 0 },
            Op::CurLocal,
        ];
        // the nested steps are applied by `push` through the model like any other call
        let call = Op::ACall { a, method, steps, outcome: AOutcome::Pending };
        self.push(t, call);
        self.push(t, Op::CurLocal);
        if guarded {
            self.push(t, Op::Pop);
        }
        self.push(t, Op::ADrop { a });
    }

    fn traceless_scope(&mut self, t: usize) {
        if self.pf.w.anew > 0 && self.depth_call == 0 && self.rng.chance(1, 3) {
            return self.traceless_adapter(t);
        }
        let l = new_span_label();
        let kind = self.rng.below(4);
        match kind {
            0 => self.push(t, Op::Child { l, parents: vec![], single: false, np: 0, k0: 0 }),
            1 | 2 => {
                let n1 = new_span_label();
                self.push(t, Op::Noop { l: n1 });
                let mut parents = vec![n1];
                if kind == 2 {
                    let n2 = new_span_label();
                    self.push(t, Op::Noop { l: n2 });
                    parents.push(n2);
                }
                self.push(t, Op::Child { l, parents, single: false, np: 1, k0: new_keys(1) });
            }
            _ => self.push(t, Op::Noop { l }),
        }
        self.push(t, Op::Guard { span: l });
        self.push(t, Op::CurLocal);
        self.push(t, Op::ChildLocal { l: new_span_label(), np: 0, k0: 0 });
        self.push(t, Op::LEnter { l: new_local_label(), np: 1, k0: new_keys(1) });
        self.push(t, Op::LAddEvent { e: new_event(), np: 0, k0: 0 });
        self.push(t, Op::CurLocal);
        self.push(t, Op::FromSpan { span: l });
        self.push(t, Op::Pop);
        if self.rng.chance(1, 2) {
            self.push(t, Op::Pop);
        }
    }

    /// A local collector started inside the scope of an unsampled span (or of a span without a
    /// trace): what it captures is detached from that scope and must arrive wherever it is pushed.
    fn collector_in_dead_scope(&mut self, t: usize) {
        let (u, s) = (new_span_label(), new_span_label());
        let st = self.fresh_tid();
        let sp = self.span_id_value();
        if self.rng.chance(2, 3) {
            let ut = self.fresh_tid();
            let up = self.span_id_value();
            self.push(t, Op::Root { l: u, trace_id: ut, parent: up, sampled: false, np: 0, k0: 0 });
        } else {
            self.push(t, Op::Child { l: u, parents: vec![], single: false, np: 0, k0: 0 });
        }
        self.push(t, Op::Root { l: s, trace_id: st, parent: sp, sampled: true, np: 0, k0: 0 });
        self.push(t, Op::Guard { span: u });
        let set = new_set();
        self.push(t, Op::LcStart { set });
        self.push(t, Op::LEnter { l: new_local_label(), np: 1, k0: new_keys(1) });
        self.push(t, Op::LAddEvent { e: new_event(), np: 0, k0: 0 });
        self.push(t, Op::LEnter { l: new_local_label(), np: 0, k0: 0 });
        self.push(t, Op::Pop);
        self.push(t, Op::Pop);
        self.push(t, Op::Pop);
        self.push(t, Op::Pop);
        self.push(t, Op::PushSet { set, parents: vec![s] });
        self.set_parents.entry(set).or_default().insert(s);
        self.set_pushed.entry(set).or_default().insert(st);
        let (rt, rs) = (self.rng.u128(), self.span_id_value());
        self.push(t, Op::ToRecords { set, trace_id: rt, span_id: rs });
        self.push(t, Op::Finish { span: u });
    }

    /// A scope on a span with one parent in an unsampled and one in a sampled trace.
    fn mixed_scope(&mut self, t: usize) {
        if self.rng.chance(1, 3) {
            return self.collector_in_dead_scope(t);
        }
        let (u, s) = (new_span_label(), new_span_label());
        let ut = self.fresh_tid();
        let st = self.fresh_tid();
        let up = self.span_id_value();
        let sp = self.span_id_value();
        self.push(t, Op::Root { l: u, trace_id: ut, parent: up, sampled: false, np: 0, k0: 0 });
        self.push(t, Op::Root { l: s, trace_id: st, parent: sp, sampled: true, np: 0, k0: 0 });
        let m = new_span_label();
        let mut parents = if self.rng.chance(2, 3) { vec![u, s] } else { vec![s, u] };
        if self.rng.chance(1, 4) {
            // a third parent of either kind
            let alive: Vec<u32> = self.m().alive_spans().into_iter().filter(|x| !self.reserved.contains(x) && *x != u && *x != s).collect();
            if !alive.is_empty() {
                parents.push(*self.rng.pick(&alive));
            }
        }
        self.push(t, Op::Child { l: m, parents, single: false, np: 1, k0: new_keys(1) });
        self.push(t, Op::Guard { span: m });
        self.push(t, Op::CurLocal);
        self.push(t, Op::LEnter { l: new_local_label(), np: 1, k0: new_keys(1) });
        self.push(t, Op::LAddEvent { e: new_event(), np: 0, k0: 0 });
        let c = new_span_label();
        self.push(t, Op::ChildLocal { l: c, np: 0, k0: 0 });
        self.push(t, Op::FromSpan { span: c });
        self.push(t, Op::LEnter { l: new_local_label(), np: 0, k0: 0 });
        self.push(t, Op::CurLocal);
        self.push(t, Op::Pop);
        self.push(t, Op::Pop);
        self.push(t, Op::LAddProps { n: 1, k0: new_keys(1) });
        self.push(t, Op::FromSpan { span: m });
        self.push(t, Op::Pop);
        self.push(t, Op::Finish { span: c });
        // the rest of the program finishes m, u and s in whatever order it likes
        if self.rng.chance(1, 2) {
            self.push(t, Op::Finish { span: m });
        }
    }

    /// Close everything that is still open so that the program ends quiescent.
    pub fn close_out(&mut self) {
        for t in 0..self.prog.nthreads {
            while !self.m().threads[t].frames.is_empty() {
                self.push(t, Op::Pop);
            }
        }
        let mut ads: Vec<u32> = self.m().adapters.values().filter(|a| a.alive).map(|a| a.a).collect();
        ads.sort_unstable();
        for a in ads {
            let t = self.rng.below(self.prog.nthreads);
            self.push(t, Op::ADrop { a });
        }
        let mut alive = self.m().alive_spans();
        self.rng.shuffle(&mut alive);
        if self.rng.chance(self.pf.p_roots_last, 1000) {
            let (roots, others): (Vec<u32>, Vec<u32>) = alive.iter().partition(|s| self.m().spans[s].root_of.is_some());
            alive = others;
            alive.extend(roots);
        }
        for s in alive {
            let t = self.rng.below(self.prog.nthreads);
            self.push(t, Op::Finish { span: s });
        }
    }

    /// A program around a full-queue episode: ordinary operations, then one thread floods its
    /// command ring while the collector is held back, then issues operations of every kind during
    /// the episode (their non-forced commands may be dropped), then the collector drains, then the
    /// same thread runs a complete fresh trace, which must be delivered completely.
    pub fn generate_overload(mut self) -> Program {
        let n1 = self.rng.range(0, 14);
        for _ in 0..n1 {
            let t = self.rng.below(self.prog.nthreads);
            if let Some(op) = self.gen_op(t, false) {
                self.push(t, op);
            }
        }
        let t = self.rng.below(self.prog.nthreads);
        let f = new_span_label();
        let ftid = self.fresh_tid();
        self.push(t, Op::Root { l: f, trace_id: ftid, parent: 1, sampled: true, np: 0, k0: 0 });
        self.reserved.insert(f);
        // signals parked while the ring is full are only guaranteed while the thread lives
        self.no_exit.insert(t);
        // sometimes many traces end during the episode: their finish / cancel signals are all parked
        let mass: Vec<u32> = if self.rng.chance(1, 2) {
            let m = if self.rng.chance(1, 3) { self.rng.range(70, 320) } else { self.rng.range(18, 70) };
            (0..m)
                .map(|_| {
                    let l = new_span_label();
                    let tid = self.fresh_tid();
                    self.push(t, Op::Root { l, trace_id: tid, parent: 3, sampled: true, np: 0, k0: 0 });
                    self.reserved.insert(l);
                    l
                })
                .collect()
        } else {
            vec![]
        };
        let hold_from = self.prog.ops.len();
        // 64 sends of an operation may be interleaved with cycles; the rest refills the ring
        let extra = self.rng.range(1, 200) as u32;
        self.push(t, Op::Fill { span: f, n: 10_240 + 64 + extra });
        // some roots are cancelled during the episode (the cancel is parked deep in the list) and
        // finished only after it: the finish must not overtake its cancel however long the list is
        let mut late: Vec<u32> = vec![];
        for l in mass {
            if self.rng.chance(1, 12) {
                self.push(t, Op::Cancel { span: l });
                late.push(l);
                continue;
            }
            if self.rng.chance(1, 5) {
                self.push(t, Op::Cancel { span: l });
            }
            // some of the roots are finished by a contained panic that unwinds through their owner
            if self.rng.chance(1, 3) {
                self.push(t, Op::Unwind { steps: vec![], drops: vec![l] });
            } else {
                self.push(t, Op::Finish { span: l });
            }
            self.reserved.remove(&l);
        }
        let n2 = self.rng.range(3, 18);
        for _ in 0..n2 {
            // mostly the flooded thread; others keep working normally
            let tt = if self.rng.chance(4, 5) { t } else { self.rng.below(self.prog.nthreads) };
            if let Some(op) = self.gen_op(tt, false) {
                self.push(tt, op);
            }
        }
        let hold_to = self.prog.ops.len();
        self.prog.no_cycle.push((hold_from + 1, hold_to));
        // after the collector has caught up, the flooded thread's next calls are nothing but
        // cancel() (forced commands only), and another thread finishes that root: the cancel must
        // not stay behind in the thread's list now that the ring has room
        if self.prog.nthreads > 1 && self.rng.chance(1, 3) {
            let v = new_span_label();
            let vt = self.fresh_tid();
            // the root itself is created after the episode on a different thread, so that its
            // start is certainly known to the collector
            let u = (t + 1 + self.rng.below(self.prog.nthreads - 1)) % self.prog.nthreads;
            self.push(u, Op::Root { l: v, trace_id: vt, parent: 5, sampled: true, np: 0, k0: 0 });
            self.reserved.insert(v);
            let at = self.prog.ops.len();
            self.prog.drain_points.push(at);
            self.push(t, Op::Cancel { span: v });
            if self.rng.chance(1, 2) {
                self.push(t, Op::Cancel { span: v });
            }
            self.push(u, Op::Finish { span: v });
            self.reserved.remove(&v);
        }
        // deepest parked cancel first: its finish arrives while most of the list is still parked
        if !late.is_empty() && self.rng.chance(1, 2) {
            let at = self.prog.ops.len();
            self.prog.drain_points.push(at);
        }
        if self.rng.chance(3, 4) {
            late.reverse();
        }
        for l in late {
            self.push(t, Op::Finish { span: l });
            self.reserved.remove(&l);
        }
        let n3 = self.rng.range(2, 10);
        for _ in 0..n3 {
            let tt = self.rng.below(self.prog.nthreads);
            if let Some(op) = self.gen_op(tt, false) {
                self.push(tt, op);
            }
        }
        // make the thread send again (replays whatever is still parked), wait for the drain
        self.push(t, Op::AddEvent { span: f, e: new_event(), np: 0, k0: 0 });
        let mark = self.prog.ops.len();
        self.prog.drain_points.push(mark);
        self.push(t, Op::AddEvent { span: f, e: new_event(), np: 0, k0: 0 });
        // a fresh trace after the queue has drained
        let r = new_span_label();
        let rtid = self.fresh_tid();
        self.push(t, Op::Root { l: r, trace_id: rtid, parent: 2, sampled: true, np: 1, k0: new_keys(1) });
        self.push(t, Op::Guard { span: r });
        self.push(t, Op::LEnter { l: new_local_label(), np: 0, k0: 0 });
        self.push(t, Op::LAddEvent { e: new_event(), np: 0, k0: 0 });
        self.push(t, Op::Pop);
        self.push(t, Op::Pop);
        let c = new_span_label();
        self.push(t, Op::Child { l: c, parents: vec![r], single: true, np: 0, k0: 0 });
        self.push(t, Op::AddProps { span: r, n: 1, k0: new_keys(1) });
        self.push(t, Op::Finish { span: c });
        self.push(t, Op::Finish { span: r });
        self.reserved.clear();
        self.close_out();
        self.prog
    }

    pub fn generate(mut self) -> Program {
        let n = self.rng.range(self.pf.ops.0, self.pf.ops.1);
        for _ in 0..n {
            let t = self.rng.below(self.prog.nthreads);
            if self.rng.chance(self.pf.p_traceless_scope, 1000) && self.m().threads[t].frames.len() < self.pf.max_depth {
                self.traceless_scope(t);
                continue;
            }
            if self.rng.chance(self.pf.p_mixed_scope, 1000) && self.m().threads[t].frames.len() + 3 < self.pf.max_depth {
                self.mixed_scope(t);
                continue;
            }
            if let Some(op) = self.gen_op(t, false) {
                self.push(t, op);
            }
        }
        self.close_out();
        self.prog
    }
}
