//! Shadow model of the span API: built from what the harness *asks* the library to do, never from
//! what the library reports.  It mirrors the documented API-level behaviour (who is whose
//! parent, which trace a span belongs to, what is recorded and what is inert).

use std::collections::HashMap;

use crate::ops::*;

pub const QUEUE_CAP: usize = 10240;
pub const STACK_CAP: usize = 4096;

#[derive(Clone, Copy, Debug, PartialEq, Eq, Hash)]
pub enum PRef {
    Remote(u64),
    S(u32),
    L(u32),
}

#[derive(Clone, Debug, PartialEq)]
pub struct Item {
    pub trace: usize,
    pub parent: PRef,
    pub sampled: bool,
}

#[derive(Clone, Debug)]
pub struct MTrace {
    pub ix: usize,
    pub trace_id: u128,
    pub parent: PRef,
    pub from_ctx: Option<usize>,
    pub sampled: bool,
    pub root: u32,
    pub create_op: usize,
    pub create_thread: usize,
    pub cancel_op: Option<usize>,
    pub finish_op: Option<usize>,
    /// n-th sampled root created by this program (collect id = process base + n)
    pub nth_sampled: Option<usize>,
    pub start_send: Option<SendRef>,
    pub commit_send: Option<SendRef>,
    pub drop_send: Option<SendRef>,
}

#[derive(Clone, Copy, Debug, PartialEq, Eq, Hash)]
pub enum Route {
    Create,
    Handle,
    Local,
    LocalHandle,
}

#[derive(Clone, Debug)]
pub enum AttKind {
    Props { k0: u32, n: u8 },
    Event { e: u32, k0: u32, np: u8 },
}

#[derive(Clone, Debug)]
pub struct Att {
    pub route: Route,
    pub thread: usize,
    pub op: usize,
    pub kind: AttKind,
    /// line that carried a local-route attachment
    pub line: Option<usize>,
    /// the command that carries a handle-route attachment
    pub submit_send: Option<SendRef>,
}

#[derive(Clone, Debug)]
pub struct MSpan {
    pub l: u32,
    pub inner: bool,
    pub items: Vec<Item>,
    pub root_of: Option<usize>,
    pub create_op: usize,
    pub create_thread: usize,
    pub finish_op: Option<usize>,
    pub finish_thread: usize,
    /// keys recorded at creation, in order
    pub props: Vec<u32>,
    pub atts: Vec<Att>,
    pub held_by: Option<u32>,
    pub submit_send: Option<SendRef>,
    /// target of Fill operations: its events are not checked
    pub filler: bool,
}

#[derive(Clone, Debug)]
pub struct MLocal {
    pub l: u32,
    /// Some(a): recorded by `enter_on_poll` of adapter a (shared name)
    pub poll_of: Option<u32>,
    pub line: usize,
    pub parent: Option<u32>,
    pub props: Vec<u32>,
    pub enter_op: usize,
    pub exit_op: Option<usize>,
    pub atts: Vec<Att>,
}

#[derive(Clone, Debug, PartialEq)]
pub enum LineKind {
    Guard(u32),
    Collector(u32),
}

#[derive(Clone, Debug)]
pub struct MLine {
    pub ix: usize,
    pub kind: LineKind,
    pub items: Option<Vec<Item>>,
    pub sampled: bool,
    pub thread: usize,
    pub open_op: usize,
    pub close_op: Option<usize>,
    /// raw spans in the queue (local spans + events + property sets)
    pub count: usize,
    pub locals: Vec<u32>,
    pub open: Vec<u32>,
    pub root_atts: Vec<Att>,
    /// (flat op, parent span, command) for every push_child_spans of a collected set
    pub pushes: Vec<(usize, u32, Option<SendRef>)>,
    pub submit_send: Option<SendRef>,
}

#[derive(Clone, Debug)]
pub enum Frame {
    Scope { line: Option<usize> },
    Local { l: Option<u32> },
}

#[derive(Clone, Debug, Default)]
pub struct MThread {
    pub frames: Vec<Frame>,
    pub os_gen: u32,
    /// the current OS thread of this logical thread has sent at least one command
    pub sent: bool,
}

#[derive(Clone, Debug)]
pub struct MAdapter {
    pub a: u32,
    pub kind: AKind,
    pub span: Option<u32>,
    pub poll_name: Option<u32>,
    pub alive: bool,
    pub done: bool,
    pub calls: u32,
    pub owned: Vec<u32>,
    /// Duplex: the stream half returned None / the sink half was closed
    pub ended: bool,
    pub closed: bool,
}

/// (flat op index, index among the sends of that flat op)
pub type SendRef = (usize, usize);

#[derive(Clone, Copy, Debug, PartialEq, Eq)]
pub enum SendKind {
    Start,
    Drop,
    Commit,
    Submit,
}

#[derive(Clone, Debug)]
pub struct OpInfo {
    pub thread: usize,
    pub sends: Vec<(SendKind, bool)>,
    /// expected result of FromSpan / CurLocal: (trace, parent ref, sampled)
    pub ctx: Option<Option<(usize, PRef, bool)>>,
    /// expected `elapsed().is_some()`
    pub elapsed: Option<bool>,
    /// number of user closures that must have been invoked by this op, and the number that must
    /// not have been
    pub closures_run: u32,
    pub closures_lazy: u32,
}

#[derive(Clone, Debug)]
pub struct Model {
    pub cancelable: bool,
    pub traces: Vec<MTrace>,
    pub spans: HashMap<u32, MSpan>,
    pub locals: HashMap<u32, MLocal>,
    pub lines: Vec<MLine>,
    pub threads: Vec<MThread>,
    pub adapters: HashMap<u32, MAdapter>,
    /// set id -> line (None: the collector could not register, the set is empty)
    pub sets: HashMap<u32, Option<usize>>,
    pub ops: Vec<OpInfo>,
    pub sampled_roots: usize,
    /// next free label for locals created implicitly by enter_on_poll
    pub next_auto_local: u32,
    cur_op: usize,
    cur_thread: usize,
    /// frames are being closed by a panic unwinding through them
    unwinding: bool,
}

impl Model {
    pub fn new(nthreads: usize, cancelable: bool, auto_local_base: u32) -> Model {
        Model {
            cancelable,
            traces: vec![],
            spans: HashMap::new(),
            locals: HashMap::new(),
            lines: vec![],
            threads: vec![MThread::default(); nthreads],
            adapters: HashMap::new(),
            sets: HashMap::new(),
            ops: vec![],
            sampled_roots: 0,
            next_auto_local: auto_local_base,
            cur_op: 0,
            cur_thread: 0,
            unwinding: false,
        }
    }

    pub fn registered_lines(&self, t: usize) -> usize {
        self.threads[t]
            .frames
            .iter()
            .filter(|f| matches!(f, Frame::Scope { line: Some(_) }))
            .count()
    }

    pub fn current_line(&self, t: usize) -> Option<usize> {
        self.threads[t].frames.iter().rev().find_map(|f| match f {
            Frame::Scope { line: Some(l) } => Some(*l),
            _ => None,
        })
    }

    fn issue(&self, span: u32) -> Vec<Item> {
        let s = &self.spans[&span];
        s.items
            .iter()
            .map(|it| Item {
                trace: it.trace,
                parent: PRef::S(span),
                sampled: it.sampled,
            })
            .collect()
    }

    /// what `stack.current_collect_token()` yields on thread t
    pub fn current_token(&self, t: usize) -> Option<Vec<Item>> {
        let line = &self.lines[self.current_line(t)?];
        let items = line.items.as_ref()?;
        Some(
            items
                .iter()
                .map(|it| Item {
                    trace: it.trace,
                    parent: line.open.last().map(|l| PRef::L(*l)).unwrap_or(it.parent),
                    sampled: it.sampled,
                })
                .collect(),
        )
    }

    pub fn expected_ctx(&self, t: usize) -> Option<(usize, PRef, bool)> {
        let tok = self.current_token(t)?;
        tok.first().map(|it| (it.trace, it.parent, it.sampled))
    }

    fn info(&mut self) -> &mut OpInfo {
        let i = self.cur_op;
        &mut self.ops[i]
    }

    fn send(&mut self, kind: SendKind, forced: bool) -> SendRef {
        self.info().sends.push((kind, forced));
        let t = self.cur_thread;
        self.threads[t].sent = true;
        (self.cur_op, self.ops[self.cur_op].sends.len() - 1)
    }

    fn new_span(&mut self, l: u32, inner: bool, items: Vec<Item>, root_of: Option<usize>, np: u8, k0: u32) {
        let props = if inner { (k0..k0 + np as u32).collect() } else { vec![] };
        if np > 0 {
            if inner {
                self.info().closures_run += 1;
            } else {
                self.info().closures_lazy += 1;
            }
        }
        let (op, t) = (self.cur_op, self.cur_thread);
        self.spans.insert(
            l,
            MSpan {
                l,
                inner,
                items,
                root_of,
                create_op: op,
                create_thread: t,
                finish_op: None,
                finish_thread: 0,
                props,
                atts: vec![],
                held_by: None,
                submit_send: None,
                filler: false,
            },
        );
    }

    fn new_trace(&mut self, trace_id: u128, parent: PRef, from_ctx: Option<usize>, sampled: bool, root: u32) -> usize {
        let ix = self.traces.len();
        let nth = if sampled {
            self.sampled_roots += 1;
            Some(self.sampled_roots - 1)
        } else {
            None
        };
        self.traces.push(MTrace {
            ix,
            trace_id,
            parent,
            from_ctx,
            sampled,
            root,
            create_op: self.cur_op,
            create_thread: self.cur_thread,
            cancel_op: None,
            finish_op: None,
            nth_sampled: nth,
            start_send: None,
            commit_send: None,
            drop_send: None,
        });
        if sampled {
            let r = self.send(SendKind::Start, false);
            self.traces[ix].start_send = Some(r);
        }
        ix
    }

    fn open_guard(&mut self, span: u32) {
        let t = self.cur_thread;
        if !self.spans[&span].inner {
            self.threads[t].frames.push(Frame::Scope { line: None });
            return;
        }
        if self.registered_lines(t) >= STACK_CAP {
            self.threads[t].frames.push(Frame::Scope { line: None });
            return;
        }
        let items = self.issue(span);
        let sampled = items.iter().any(|i| i.sampled);
        let ix = self.lines.len();
        self.lines.push(MLine {
            ix,
            kind: LineKind::Guard(span),
            items: Some(items),
            sampled,
            thread: t,
            open_op: self.cur_op,
            close_op: None,
            count: 0,
            locals: vec![],
            open: vec![],
            root_atts: vec![],
            pushes: vec![],
            submit_send: None,
        });
        self.threads[t].frames.push(Frame::Scope { line: Some(ix) });
    }

    fn enter_local(&mut self, l: u32, poll_of: Option<u32>, np: u8, k0: u32) {
        let t = self.cur_thread;
        let rec = match self.current_line(t) {
            Some(li) => {
                let line = &self.lines[li];
                if line.sampled && line.count < QUEUE_CAP {
                    Some(li)
                } else {
                    None
                }
            }
            None => None,
        };
        match rec {
            None => {
                if np > 0 {
                    self.info().closures_lazy += 1;
                }
                self.threads[t].frames.push(Frame::Local { l: None });
            }
            Some(li) => {
                if np > 0 {
                    self.info().closures_run += 1;
                }
                let parent = self.lines[li].open.last().copied();
                self.lines[li].count += 1;
                self.lines[li].locals.push(l);
                self.lines[li].open.push(l);
                self.locals.insert(
                    l,
                    MLocal {
                        l,
                        poll_of,
                        line: li,
                        parent,
                        props: (k0..k0 + np as u32).collect(),
                        enter_op: self.cur_op,
                        exit_op: None,
                        atts: vec![],
                    },
                );
                self.threads[t].frames.push(Frame::Local { l: Some(l) });
            }
        }
    }

    fn pop_frame(&mut self) {
        let t = self.cur_thread;
        let f = self.threads[t].frames.pop().expect("pop on empty frame stack");
        match f {
            Frame::Local { l: None } => {}
            Frame::Local { l: Some(l) } => {
                let li = self.locals[&l].line;
                // well nested: the local span's line is the current one
                debug_assert_eq!(self.current_line(t), Some(li));
                self.locals.get_mut(&l).unwrap().exit_op = Some(self.cur_op);
                let top = self.lines[li].open.pop();
                debug_assert_eq!(top, Some(l));
            }
            Frame::Scope { line: None } => {}
            Frame::Scope { line: Some(li) } => {
                self.lines[li].close_op = Some(self.cur_op);
                match self.lines[li].kind.clone() {
                    LineKind::Guard(_) => {
                        if self.lines[li].sampled {
                            let r = self.send(SendKind::Submit, false);
                            self.lines[li].submit_send = Some(r);
                        }
                    }
                    LineKind::Collector(set) => {
                        if self.unwinding {
                            // a LocalCollector dropped without collect(): what it captured is gone
                            self.sets.insert(set, None);
                        } else {
                            self.sets.insert(set, Some(li));
                        }
                    }
                }
            }
        }
    }

    fn finish_span(&mut self, span: u32) {
        let (op, t) = (self.cur_op, self.cur_thread);
        let s = self.spans.get_mut(&span).unwrap();
        if !s.inner {
            s.finish_op = Some(op);
            return;
        }
        debug_assert!(s.finish_op.is_none());
        s.finish_op = Some(op);
        s.finish_thread = t;
        let any = s.items.iter().any(|i| i.sampled);
        let root_of = s.root_of;
        if any {
            let r = self.send(SendKind::Submit, false);
            self.spans.get_mut(&span).unwrap().submit_send = Some(r);
        }
        if let Some(tr) = root_of {
            self.traces[tr].finish_op = Some(op);
            let r = self.send(SendKind::Commit, true);
            self.traces[tr].commit_send = Some(r);
        }
    }

    fn local_attach(&mut self, kind: AttKind, is_props: bool) {
        let (op, t) = (self.cur_op, self.cur_thread);
        let li = match self.current_line(t) {
            Some(li) if self.lines[li].sampled => li,
            _ => {
                // not recording: nothing happens, the closure of add_properties is not invoked
                if is_props {
                    self.info().closures_lazy += 1;
                }
                return;
            }
        };
        if is_props {
            self.info().closures_run += 1;
        }
        if self.lines[li].count >= QUEUE_CAP {
            return;
        }
        self.lines[li].count += 1;
        let att = Att {
            route: Route::Local,
            thread: t,
            op,
            kind,
            line: Some(li),
            submit_send: None,
        };
        match self.lines[li].open.last().copied() {
            Some(l) => self.locals.get_mut(&l).unwrap().atts.push(att),
            None => self.lines[li].root_atts.push(att),
        }
    }

    fn push_info(&mut self) -> usize {
        let t = self.cur_thread;
        self.ops.push(OpInfo {
            thread: t,
            sends: vec![],
            ctx: None,
            elapsed: None,
            closures_run: 0,
            closures_lazy: 0,
        });
        self.cur_op = self.ops.len() - 1;
        self.cur_op
    }

    /// Apply one operation of thread `t`. Operations are generated against this model, so they
    /// are always valid here. Returns the flat index of the operation: an adapter call occupies
    /// one index for its beginning, one per (flattened) step and one for its end.
    pub fn apply(&mut self, t: usize, op: &Op) -> usize {
        self.cur_thread = t;
        let base = self.ops.len();
        self.apply_rec(op);
        base
    }

    fn apply_rec(&mut self, op: &Op) {
        self.push_info();
        self.apply_inner(op);
    }

    fn apply_inner(&mut self, op: &Op) {
        let t = self.cur_thread;
        let opi = self.cur_op;
        match op {
            Op::Root { l, trace_id, parent, sampled, np, k0 } => {
                let tr = self.new_trace(*trace_id, PRef::Remote(*parent), None, *sampled, *l);
                let items = vec![Item {
                    trace: tr,
                    parent: PRef::Remote(*parent),
                    sampled: *sampled,
                }];
                self.new_span(*l, true, items, Some(tr), *np, *k0);
            }
            Op::Child { l, parents, single, np, k0 } => {
                if *single {
                    let p = parents[0];
                    if self.spans[&p].inner {
                        let items = self.issue(p);
                        self.new_span(*l, true, items, None, *np, *k0);
                    } else {
                        self.new_span(*l, false, vec![], None, *np, *k0);
                    }
                } else {
                    let mut items = vec![];
                    for p in parents {
                        if self.spans[p].inner {
                            items.extend(self.issue(*p));
                        }
                    }
                    self.new_span(*l, true, items, None, *np, *k0);
                }
            }
            Op::ChildLocal { l, np, k0 } => match self.current_token(t) {
                Some(items) => self.new_span(*l, true, items, None, *np, *k0),
                None => self.new_span(*l, false, vec![], None, *np, *k0),
            },
            Op::Noop { l } => self.new_span(*l, false, vec![], None, 0, 0),
            Op::Guard { span } => self.open_guard(*span),
            Op::LEnter { l, np, k0 } => self.enter_local(*l, None, *np, *k0),
            Op::LcStart { set } => {
                if self.registered_lines(t) >= STACK_CAP {
                    self.threads[t].frames.push(Frame::Scope { line: None });
                    self.sets.insert(*set, None);
                } else {
                    let ix = self.lines.len();
                    self.lines.push(MLine {
                        ix,
                        kind: LineKind::Collector(*set),
                        items: None,
                        sampled: true,
                        thread: t,
                        open_op: opi,
                        close_op: None,
                        count: 0,
                        locals: vec![],
                        open: vec![],
                        root_atts: vec![],
                        pushes: vec![],
                        submit_send: None,
                    });
                    self.threads[t].frames.push(Frame::Scope { line: Some(ix) });
                }
            }
            Op::Pop => self.pop_frame(),
            Op::LcCollectOpen => {
                // frames: [.., Scope(collector), Local.., Local] -> collect first, then drop the
                // local spans (inert: their line is gone and no other scope is registered)
                while let Some(Frame::Local { .. }) = self.threads[t].frames.last() {
                    self.threads[t].frames.pop();
                }
                let sc = self.threads[t].frames.pop().unwrap();
                if let Frame::Scope { line: Some(li) } = sc {
                    self.lines[li].close_op = Some(opi);
                    if let LineKind::Collector(set) = self.lines[li].kind.clone() {
                        self.sets.insert(set, Some(li));
                    }
                    // spans still open stay open in the model (exit_op None): closed at collect time
                    self.lines[li].open.clear();
                }
            }
            Op::PushSet { set, parents } => {
                if let Some(Some(li)) = self.sets.get(set).cloned() {
                    if self.lines[li].count > 0 {
                        for p in parents {
                            if self.spans[p].inner {
                                let r = if self.spans[p].items.iter().any(|i| i.sampled) {
                                    Some(self.send(SendKind::Submit, false))
                                } else {
                                    None
                                };
                                self.lines[li].pushes.push((opi, *p, r));
                            }
                        }
                    }
                }
            }
            Op::ToRecords { .. } => {}
            Op::AddProps { span, n, k0 } => {
                if self.spans[span].inner {
                    self.info().closures_run += 1;
                    let any = self.spans[span].items.iter().any(|i| i.sampled);
                    let r = if any { Some(self.send(SendKind::Submit, false)) } else { None };
                    self.spans.get_mut(span).unwrap().atts.push(Att {
                        route: Route::Handle,
                        thread: t,
                        op: opi,
                        kind: AttKind::Props { k0: *k0, n: *n },
                        line: None,
                        submit_send: r,
                    });
                } else {
                    self.info().closures_lazy += 1;
                }
            }
            Op::AddEvent { span, e, np, k0 } => {
                if self.spans[span].inner {
                    let any = self.spans[span].items.iter().any(|i| i.sampled);
                    let r = if any { Some(self.send(SendKind::Submit, false)) } else { None };
                    self.spans.get_mut(span).unwrap().atts.push(Att {
                        route: Route::Handle,
                        thread: t,
                        op: opi,
                        kind: AttKind::Event { e: *e, k0: *k0, np: *np },
                        line: None,
                        submit_send: r,
                    });
                }
            }
            Op::LAddProps { n, k0 } => self.local_attach(AttKind::Props { k0: *k0, n: *n }, true),
            Op::LAddEvent { e, np, k0 } => {
                self.local_attach(AttKind::Event { e: *e, k0: *k0, np: *np }, false)
            }
            Op::LWithProps { n, k0 } => {
                if let Some(Frame::Local { l }) = self.threads[t].frames.last().cloned() {
                    match l {
                        Some(l) => {
                            self.info().closures_run += 1;
                            self.locals
                                .get_mut(&l)
                                .unwrap()
                                .props
                                .extend(*k0..*k0 + *n as u32);
                        }
                        None => self.info().closures_lazy += 1,
                    }
                }
            }
            Op::Cancel { span } => {
                let s = &self.spans[span];
                if s.inner {
                    if let Some(tr) = s.root_of {
                        let r = self.send(SendKind::Drop, true);
                        if self.traces[tr].cancel_op.is_none() {
                            self.traces[tr].cancel_op = Some(opi);
                            self.traces[tr].drop_send = Some(r);
                        }
                    }
                }
            }
            Op::Finish { span } => self.finish_span(*span),
            Op::FromSpan { span } => {
                let s = &self.spans[span];
                let exp = if s.inner {
                    s.items.first().map(|it| (it.trace, PRef::S(*span), it.sampled))
                } else {
                    None
                };
                self.info().ctx = Some(exp);
            }
            Op::CurLocal => {
                let exp = self.expected_ctx(t);
                self.info().ctx = Some(exp);
            }
            Op::Elapsed { span } => {
                let inner = self.spans[span].inner;
                self.info().elapsed = Some(inner);
            }
            Op::RootFromCtx { l, from, .. } => {
                let exp = self.ops[*from].ctx.clone().flatten();
                match exp {
                    None => self.new_span(*l, false, vec![], None, 0, 0),
                    Some((tr, pref, sampled)) => {
                        let tid = self.traces[tr].trace_id;
                        let ntr = self.new_trace(tid, pref, Some(*from), sampled, *l);
                        let items = vec![Item {
                            trace: ntr,
                            parent: pref,
                            sampled,
                        }];
                        self.new_span(*l, true, items, Some(ntr), 0, 0);
                    }
                }
            }
            Op::Sleep { .. } => {}
            Op::Fill { span, n } => {
                let sp = self.spans.get_mut(span).unwrap();
                sp.filler = true;
                if sp.inner && sp.items.iter().any(|i| i.sampled) {
                    for _ in 0..*n {
                        self.send(SendKind::Submit, false);
                    }
                }
            }
            Op::Exit => {
                debug_assert!(self.threads[t].frames.is_empty());
                self.threads[t].os_gen += 1;
                self.threads[t].sent = false;
            }
            Op::ANew { a, kind, span, poll_name, owned } => {
                if let Some(s) = span {
                    self.spans.get_mut(s).unwrap().held_by = Some(*a);
                }
                for o in owned {
                    self.spans.get_mut(o).unwrap().held_by = Some(*a);
                }
                self.adapters.insert(
                    *a,
                    MAdapter {
                        a: *a,
                        kind: *kind,
                        span: *span,
                        poll_name: *poll_name,
                        alive: true,
                        done: false,
                        calls: 0,
                        owned: owned.clone(),
                        ended: false,
                        closed: false,
                    },
                );
            }
            Op::ACall { a, method, steps, outcome } => {
                let pushed = self.begin_call(*a);
                let floor = self.threads[t].frames.len();
                for st in steps {
                    self.apply_rec(st);
                }
                // the end of the call has its own flat index
                self.push_info();
                if *outcome == AOutcome::Panic {
                    // what the steps left open is dropped by the unwinding, innermost first
                    self.unwinding = true;
                    while self.threads[t].frames.len() > floor {
                        self.pop_frame();
                    }
                    self.unwinding = false;
                }
                self.end_call(*a, pushed, *method, *outcome);
            }
            Op::Reent { host, steps } => {
                // flat layout: [begin marker] [steps, if the closure runs] [host effect]
                let runs = self.closure_will_run(host);
                match &**host {
                    Op::LEnter { l, .. } => {
                        // the local span is entered first, the closure then runs inside it
                        self.enter_local(*l, None, 0, 0);
                        let rec = matches!(self.threads[t].frames.last(), Some(Frame::Local { l: Some(_) }));
                        if rec {
                            for st in steps {
                                self.apply_rec(st);
                            }
                        }
                        self.push_info();
                        if let Op::LEnter { np, k0, .. } = &**host {
                            if rec {
                                self.info().closures_run += 1;
                                if let Some(Frame::Local { l: Some(l) }) = self.threads[t].frames.last().cloned() {
                                    self.locals.get_mut(&l).unwrap().props.extend(*k0..*k0 + *np as u32);
                                }
                            } else {
                                self.info().closures_lazy += 1;
                            }
                        }
                    }
                    _ => {
                        if runs {
                            for st in steps {
                                self.apply_rec(st);
                            }
                        }
                        self.push_info();
                        self.apply_inner(host);
                    }
                }
            }
            Op::SetReporter => {}
            Op::PrepEvent { .. } => {}
            Op::Unwind { steps, drops } => {
                // flat layout: [begin marker] [steps] [end: everything left open is closed]
                let floor = self.threads[t].frames.len();
                for st in steps {
                    self.apply_rec(st);
                }
                self.push_info();
                self.unwinding = true;
                while self.threads[t].frames.len() > floor {
                    self.pop_frame();
                }
                self.unwinding = false;
                for d in drops {
                    self.finish_span(*d);
                }
            }
            Op::ADrop { a } => {
                let adm = self.adapters.get_mut(a).unwrap();
                adm.alive = false;
                let owned = std::mem::take(&mut adm.owned);
                let sp = adm.span.take();
                // the inner object (and what it owns) is dropped before the adapter's span
                for o in owned {
                    self.finish_span(o);
                }
                if let Some(s) = sp {
                    self.finish_span(s);
                }
            }
        }
    }

    /// whether the property closure of `host` is invoked in the current state
    pub fn closure_will_run(&self, host: &Op) -> bool {
        let t = self.cur_thread;
        match host {
            Op::AddProps { span, .. } => self.spans[span].inner,
            Op::LAddProps { .. } => self.current_line(t).map(|li| self.lines[li].sampled).unwrap_or(false),
            Op::LWithProps { .. } => matches!(self.threads[t].frames.last(), Some(Frame::Local { l: Some(_) })),
            Op::Child { parents, single, .. } => {
                if *single {
                    self.spans[&parents[0]].inner
                } else {
                    true
                }
            }
            Op::ChildLocal { .. } => self.current_token(t).is_some(),
            _ => false,
        }
    }

    pub fn set_thread(&mut self, t: usize) {
        self.cur_thread = t;
    }

    fn begin_call(&mut self, a: u32) -> usize {
        let ad = self.adapters[&a].clone();
        let mut pushed = 0;
        if let Some(s) = ad.span {
            self.open_guard(s);
            pushed += 1;
        }
        if ad.poll_name.is_some() {
            let l = self.next_auto_local;
            self.next_auto_local += 1;
            self.enter_local(l, Some(a), 0, 0);
            pushed += 1;
        }
        pushed
    }

    fn end_call(&mut self, a: u32, pushed: usize, method: AMethod, outcome: AOutcome) {
        for _ in 0..pushed {
            self.pop_frame();
        }
        let kind = self.adapters[&a].kind;
        let finishing = matches!(
            (kind, method, outcome),
            (AKind::Future, AMethod::Poll, AOutcome::Value)
                | (AKind::Stream, AMethod::PollNext, AOutcome::End)
                | (AKind::Sink, AMethod::PollClose, AOutcome::Value)
                | (AKind::Sink, AMethod::PollClose, AOutcome::Error)
                | (AKind::Duplex, AMethod::PollNext, AOutcome::End)
                | (AKind::Duplex, AMethod::PollClose, AOutcome::Value)
                | (AKind::Duplex, AMethod::PollClose, AOutcome::Error)
        );
        let adm = self.adapters.get_mut(&a).unwrap();
        adm.calls += 1;
        if kind == AKind::Duplex && finishing {
            if method == AMethod::PollNext {
                adm.ended = true;
            } else {
                adm.closed = true;
            }
            // the span goes with the first half that finishes; the object stays in use
            if let Some(s) = adm.span.take() {
                self.finish_span(s);
            }
            let adm = self.adapters.get_mut(&a).unwrap();
            adm.done = adm.ended && adm.closed;
            return;
        }
        if outcome == AOutcome::Panic && adm.kind == AKind::Future {
            // a future is not polled again after it panicked; its span lives until the adapter is
            // dropped. A stream or sink stays in use: a panic is neither its end nor its close,
            // so the span stays bound to it.
            adm.done = true;
        }
        if finishing {
            adm.done = true;
            if let Some(s) = adm.span.take() {
                self.finish_span(s);
            }
        }
    }

    /// For the generator: the state in which the closure of `host` runs, on a scratch copy of the
    /// model. Returns whether the closure runs at all.
    pub fn scratch_begin_reent(&mut self, t: usize, host: &Op) -> bool {
        self.cur_thread = t;
        self.push_info();
        match host {
            Op::LEnter { l, .. } => {
                self.enter_local(*l, None, 0, 0);
                matches!(self.threads[t].frames.last(), Some(Frame::Local { l: Some(_) }))
            }
            Op::AddProps { span, .. } => {
                let runs = self.spans[span].inner;
                // the host span is in use by the call: nested steps cannot touch it
                self.spans.get_mut(span).unwrap().held_by = Some(u32::MAX);
                runs
            }
            _ => self.closure_will_run(host),
        }
    }

    /// For the generator: the begin marker of an `Unwind` on a scratch copy of the model.
    pub fn scratch_begin_unwind(&mut self, t: usize) {
        self.cur_thread = t;
        self.push_info();
    }

    /// For the generator: open the scope of a call on a scratch copy of the model.
    pub fn scratch_begin_call(&mut self, t: usize, a: u32) {
        self.cur_thread = t;
        self.push_info();
        self.begin_call(a);
    }

    /// whether thread t's frames end with a registered local collector followed by one or more
    /// local spans, with no other registered scope below (the shape LcCollectOpen needs)
    pub fn can_collect_open(&self, t: usize) -> bool {
        let f = &self.threads[t].frames;
        let mut i = f.len();
        let mut locals = 0;
        while i > 0 {
            match &f[i - 1] {
                Frame::Local { .. } => {
                    locals += 1;
                    i -= 1;
                }
                _ => break,
            }
        }
        if locals == 0 || i == 0 {
            return false;
        }
        let is_collector = match &f[i - 1] {
            Frame::Scope { line: Some(li) } => matches!(self.lines[*li].kind, LineKind::Collector(_)),
            _ => false,
        };
        is_collector && !f[..i - 1].iter().any(|x| matches!(x, Frame::Scope { line: Some(_) }))
    }

    // ---- queries used by the generator ----

    pub fn alive_spans(&self) -> Vec<u32> {
        let mut v: Vec<u32> = self
            .spans
            .values()
            .filter(|s| s.finish_op.is_none() && s.held_by.is_none())
            .map(|s| s.l)
            .collect();
        v.sort_unstable();
        v
    }

    /// spans that are currently set as local parent by an open guard on some thread
    pub fn guarded_spans(&self) -> Vec<u32> {
        let mut v = vec![];
        for th in &self.threads {
            for f in &th.frames {
                if let Frame::Scope { line: Some(li) } = f {
                    if let LineKind::Guard(s) = self.lines[*li].kind {
                        v.push(s);
                    }
                }
            }
        }
        v
    }
}
