//! Oracles: compare what the library delivered / returned with the shadow model.

use std::collections::{HashMap, HashSet};

use fastrace::collector::SpanRecord;
use fastrace::verif::Point;

use crate::exec::*;
use crate::model::*;
use crate::ops::*;
use crate::sched::*;

#[derive(Clone, Copy, Debug, PartialEq, Eq, Hash, PartialOrd, Ord)]
pub enum Cat {
    Missing,
    Duplicate,
    UnexpectedUnsampled,
    UnexpectedCancelled,
    UnexpectedUnknown,
    WrongTraceId,
    WrongParent,
    IdProblem,
    AttachMissing,
    AttachDup,
    AttachMisplaced,
    AttachOrder,
    BatchSplit,
    EarlyDelivery,
    LateDelivery,
    CtxMismatch,
    FrameBroken,
    CopyDiff,
    Timing,
    Stats,
    Lazy,
    Outcome,
    Panic,
}

#[derive(Clone, Debug)]
pub struct Violation {
    pub cat: Cat,
    /// stable signature used for known-findings matching
    pub sig: String,
    pub detail: String,
}

#[derive(Clone, Debug, Default)]
pub struct Counters {
    pub records: usize,
    pub expected_required: usize,
    pub expected_optional: usize,
    pub expected_forbidden: usize,
    pub parent_checks: usize,
    pub attach_checks: usize,
    pub ctx_checks: usize,
    pub frame_checks: usize,
    pub copy_checks: usize,
    pub timing_checks: usize,
    /// durations of one second or more that were checked against their brackets
    pub timing_long: usize,
    pub timing_long_local: usize,
    pub call_checks: usize,
    pub batch_checks: usize,
    pub lazy_checks: usize,
    pub possibly_dropped: usize,
    pub traces_multi_cycle: usize,
}

#[derive(Clone, Copy, Debug, PartialEq, Eq)]
pub enum Need {
    Required,
    Optional,
    Forbidden(Cat),
}

#[derive(Clone, Copy, Debug, PartialEq, Eq, Hash)]
pub enum Ent {
    S(u32),
    L(u32),
}

#[derive(Clone, Debug)]
struct Exp {
    name: String,
    ent: Ent,
    trace: usize,
    trace_id: u128,
    parent: PRef,
    need: Need,
    /// (top, j) of the command that carries it
    submit: Option<(usize, usize)>,
    submit_flat: usize,
    /// push copy index for collected sets (None: delivered through its own scope / span)
    push: Option<usize>,
}

pub struct OracleCfg {
    pub cancelable: bool,
    /// whole-cycle schedules: a deliverable must be in the first report call after it is ready
    pub strict_calls: bool,
    pub check_stats: bool,
    pub collect_base: usize,
    /// (flat, flat) pairs of current_local_parent probes that must return the same value
    pub frame_pairs: Vec<(usize, usize)>,
    pub timing: bool,
}

pub struct OracleOut {
    pub violations: Vec<Violation>,
    pub counters: Counters,
}

fn v(out: &mut Vec<Violation>, cat: Cat, sig: &str, detail: String) {
    out.push(Violation { cat, sig: sig.to_string(), detail });
}

/// position of a send among the sends of its top-level operation
fn send_time(prog: &Program, sref: SendRef) -> (usize, usize) {
    let (flat, idx) = sref;
    let top = prog.top_of_flat(flat);
    let b = prog.flat_base[top];
    let before: usize = prog.model.ops[b..flat].iter().map(|o| o.sends.len()).sum();
    (top, before + idx)
}

fn done_at(p: &PosInfo, st: (usize, usize)) -> bool {
    p.top > st.0 || (p.top == st.0 && p.in_op && p.sends_done > st.1)
}

struct NameMaps {
    by_name: HashMap<String, Ent>,
}

pub fn check(prog: &Program, ex: &Execution, cfg: &OracleCfg) -> OracleOut {
    set_str_mode(prog.str_mode);
    let m = &prog.model;
    let mut out: Vec<Violation> = vec![];
    let mut cn = Counters::default();

    // ---- panics ----
    for (i, r) in ex.results.iter().enumerate() {
        if let ResKind::Panic(msg) = &r.kind {
            v(&mut out, Cat::Panic, "panic", format!("operation at flat index {} panicked: {}", i, msg));
        }
    }

    // ---- possibly dropped sends, from the hook log ----
    let mut dropped: HashSet<(usize, usize)> = HashSet::new();
    // forced commands (commit / cancel) that were parked in the sender's overflow list
    let mut parked: HashSet<(usize, usize)> = HashSet::new();
    // ... and among them those that were parked because a push found the ring full (the only
    // reason the library has for parking; a `Park` without it is not covered by finding D12)
    let mut parked_ring_full: HashSet<(usize, usize)> = HashSet::new();
    {
        let mut cur: HashMap<usize, (usize, usize, bool)> = HashMap::new(); // lt -> (top, j, forced)
        let mut count: HashMap<(usize, usize), usize> = HashMap::new(); // (lt, top) -> sends seen
        for ev in &ex.hooks {
            if ev.lt >= prog.nthreads {
                continue;
            }
            let pi = ex.pos.get(ev.pos as usize).copied().unwrap_or_default();
            if pi.warmup {
                continue;
            }
            let top = pi.top;
            match ev.point {
                Point::Send { force, .. } => {
                    let c = count.entry((ev.lt, top)).or_insert(0);
                    cur.insert(ev.lt, (top, *c, force));
                    *c += 1;
                }
                Point::Push { full: true, .. } => {
                    if let Some((top, j, forced)) = cur.get(&ev.lt) {
                        if !*forced {
                            dropped.insert((*top, *j));
                        } else {
                            parked.insert((*top, *j));
                            parked_ring_full.insert((*top, *j));
                        }
                    }
                }
                Point::Park { .. } => {
                    if let Some((top, j, _)) = cur.get(&ev.lt) {
                        parked.insert((*top, *j));
                    }
                }
                _ => {}
            }
        }
    }
    cn.possibly_dropped = dropped.len();
    // collector cycle in which each command was consumed: the first drain of its queue that ended
    // (RecvEmpty) after the command was pushed
    let consumed_in_cycle = {
        let mut cur: HashMap<usize, (usize, usize)> = HashMap::new();
        let mut count: HashMap<(usize, usize), usize> = HashMap::new();
        let mut pushed: HashMap<(usize, usize), (usize, usize)> = HashMap::new(); // send -> (log index, q)
        let mut cycle_at: Vec<usize> = Vec::with_capacity(ex.hooks.len());
        let mut cyc = 0usize;
        for (i, ev) in ex.hooks.iter().enumerate() {
            if let Point::CycleBegin = ev.point {
                cyc += 1;
            }
            cycle_at.push(cyc);
            if ev.lt >= prog.nthreads {
                continue;
            }
            let pi = ex.pos.get(ev.pos as usize).copied().unwrap_or_default();
            if pi.warmup {
                continue;
            }
            match ev.point {
                Point::Send { .. } => {
                    let c = count.entry((ev.lt, pi.top)).or_insert(0);
                    cur.insert(ev.lt, (pi.top, *c));
                    *c += 1;
                }
                Point::Push { q, replay: false, full: false, .. } => {
                    if let Some(s) = cur.get(&ev.lt) {
                        pushed.entry(*s).or_insert((i, q));
                    }
                }
                _ => {}
            }
        }
        let hooks = &ex.hooks;
        let mut map: HashMap<(usize, usize), usize> = HashMap::new();
        for (send, (i, q)) in pushed.iter() {
            let c = hooks[*i..].iter().enumerate().find_map(|(d, ev)| match ev.point {
                Point::RecvEmpty { q: q2 } if q2 == *q => Some(cycle_at[*i + d]),
                _ => None,
            });
            if let Some(c) = c {
                map.insert(*send, c);
            }
        }
        map
    };
    let consumed_map = consumed_in_cycle.clone();
    let consumed_in_cycle = move |send: (usize, usize)| -> Option<usize> { consumed_in_cycle.get(&send).copied() };
    let is_dropped = |s: Option<(usize, usize)>| s.map(|s| dropped.contains(&s)).unwrap_or(false);

    // ---- names ----
    let mut names = NameMaps { by_name: HashMap::new() };
    for s in m.spans.values() {
        names.by_name.insert(sname(s.l), Ent::S(s.l));
    }
    // enter_on_poll locals share a name per adapter: they are told apart by begin-time order
    let mut poll_locals: HashMap<u32, Vec<u32>> = HashMap::new();
    for l in m.locals.values() {
        match l.poll_of {
            None => {
                names.by_name.insert(lname(l.l), Ent::L(l.l));
            }
            Some(a) => poll_locals.entry(a).or_default().push(l.l),
        }
    }
    for v in poll_locals.values_mut() {
        v.sort_unstable(); // creation order
    }

    // ---- trace facts ----
    let start_lost: Vec<bool> = m
        .traces
        .iter()
        .map(|t| is_dropped(t.start_send.map(|s| send_time(prog, s))))
        .collect();
    let commit_time: Vec<Option<(usize, usize)>> =
        m.traces.iter().map(|t| t.commit_send.map(|s| send_time(prog, s))).collect();

    // ---- expected deliverables ----
    let mut exps: Vec<Exp> = vec![];
    let need_of = |trace: usize, sampled: bool, submit: Option<(usize, usize)>| -> Need {
        let t = &m.traces[trace];
        if !sampled {
            return Need::Forbidden(Cat::UnexpectedUnsampled);
        }
        if cfg.cancelable {
            if t.cancel_op.is_some() {
                return Need::Forbidden(Cat::UnexpectedCancelled);
            }
            if start_lost[trace] {
                return Need::Optional;
            }
            match (commit_time[trace], submit) {
                (Some(c), Some(s)) => {
                    if s < c {
                        if dropped.contains(&s) {
                            Need::Optional
                        } else {
                            Need::Required
                        }
                    } else {
                        // finished after the root: may ride along if it reaches the collector in
                        // the same cycle, otherwise it is discarded
                        Need::Optional
                    }
                }
                _ => Need::Forbidden(Cat::EarlyDelivery), // root never finished
            }
        } else if is_dropped(submit) {
            Need::Optional
        } else {
            Need::Required
        }
    };
    for s in m.spans.values() {
        if !s.inner || s.finish_op.is_none() {
            continue;
        }
        let submit = s.submit_send.map(|x| send_time(prog, x));
        for it in &s.items {
            exps.push(Exp {
                name: sname(s.l),
                ent: Ent::S(s.l),
                trace: it.trace,
                trace_id: m.traces[it.trace].trace_id,
                parent: it.parent,
                need: need_of(it.trace, it.sampled, submit),
                submit,
                submit_flat: s.finish_op.unwrap(),
                push: None,
            });
        }
    }
    let local_name = |l: &MLocal| -> String {
        match l.poll_of {
            None => lname(l.l),
            Some(a) => {
                let k = poll_locals[&a].iter().position(|x| *x == l.l).unwrap();
                format!("{}#{}", pname(a), k)
            }
        }
    };
    for line in &m.lines {
        if line.close_op.is_none() {
            continue;
        }
        match &line.kind {
            LineKind::Guard(_) => {
                let submit = line.submit_send.map(|x| send_time(prog, x));
                for l in &line.locals {
                    let ml = &m.locals[l];
                    for it in line.items.as_ref().unwrap() {
                        exps.push(Exp {
                            name: local_name(ml),
                            ent: Ent::L(*l),
                            trace: it.trace,
                            trace_id: m.traces[it.trace].trace_id,
                            parent: ml.parent.map(PRef::L).unwrap_or(it.parent),
                            need: need_of(it.trace, it.sampled, submit),
                            submit,
                            submit_flat: line.close_op.unwrap(),
                            push: None,
                        });
                    }
                }
            }
            LineKind::Collector(_) => {
                for (pi, (pop, parent, sref)) in line.pushes.iter().enumerate() {
                    let submit = sref.map(|x| send_time(prog, x));
                    for l in &line.locals {
                        let ml = &m.locals[l];
                        for it in &m.spans[parent].items {
                            exps.push(Exp {
                                name: local_name(ml),
                                ent: Ent::L(*l),
                                trace: it.trace,
                                trace_id: m.traces[it.trace].trace_id,
                                parent: ml.parent.map(PRef::L).unwrap_or(PRef::S(*parent)),
                                need: need_of(it.trace, it.sampled, submit),
                                submit,
                                submit_flat: *pop,
                                push: Some(pi),
                            });
                        }
                    }
                }
            }
        }
    }
    for e in &exps {
        match e.need {
            Need::Required => cn.expected_required += 1,
            Need::Optional => cn.expected_optional += 1,
            Need::Forbidden(_) => cn.expected_forbidden += 1,
        }
    }

    // ---- delivered records ----
    struct Rec<'a> {
        call: usize,
        r: &'a SpanRecord,
        name: String,
    }
    let mut recs: Vec<Rec> = vec![];
    for (ci, c) in ex.reports.iter().enumerate() {
        for r in &c.records {
            recs.push(Rec { call: ci, r, name: r.name.to_string() });
        }
    }
    cn.records = recs.len();
    // enter_on_poll records of one adapter share a name. The generator makes every such poll
    // attach one property with a unique key to its local span first thing, which identifies the
    // poll a record belongs to; records without such a fingerprint are matched in begin-time order.
    {
        let mut pn: HashMap<String, u32> = HashMap::new();
        for a in poll_locals.keys() {
            pn.insert(pname(*a), *a);
        }
        if !pn.is_empty() {
            let mut finger: HashMap<String, u32> = HashMap::new();
            for ls in poll_locals.values() {
                for l in ls {
                    for a in &m.locals[l].atts {
                        if let AttKind::Props { k0, n } = a.kind {
                            for k in k0..k0 + n as u32 {
                                finger.insert(key(k), *l);
                            }
                        }
                    }
                }
            }
            let mut by_adapter: HashMap<u32, Vec<usize>> = HashMap::new();
            for (i, r) in recs.iter().enumerate() {
                if let Some(a) = pn.get(&r.name) {
                    by_adapter.entry(*a).or_default().push(i);
                }
            }
            for (a, mut idx) in by_adapter {
                idx.sort_by_key(|i| (recs[*i].r.begin_time_unix_ns, recs[*i].r.span_id.0));
                let mut id_to_l: HashMap<u64, u32> = HashMap::new();
                for i in &idx {
                    for (k, _) in &recs[*i].r.properties {
                        if let Some(l) = finger.get(k.as_ref()) {
                            if poll_locals[&a].contains(l) {
                                id_to_l.entry(recs[*i].r.span_id.0).or_insert(*l);
                            }
                        }
                    }
                }
                let mut free: Vec<u32> = poll_locals[&a].iter().copied().filter(|l| !id_to_l.values().any(|x| x == l)).collect();
                let mut extra = 0;
                for i in idx {
                    let id = recs[i].r.span_id.0;
                    let l = match id_to_l.get(&id) {
                        Some(l) => Some(*l),
                        None => {
                            if free.is_empty() {
                                None
                            } else {
                                let l = free.remove(0);
                                id_to_l.insert(id, l);
                                Some(l)
                            }
                        }
                    };
                    recs[i].name = match l {
                        Some(l) => {
                            let gk = poll_locals[&a].iter().position(|x| *x == l).unwrap();
                            format!("{}#{}", pname(a), gk)
                        }
                        None => {
                            extra += 1;
                            format!("{}#extra{}", pname(a), extra)
                        }
                    };
                }
            }
            for (a, ls) in &poll_locals {
                for (k, l) in ls.iter().enumerate() {
                    names.by_name.insert(format!("{}#{}", pname(*a), k), Ent::L(*l));
                }
            }
        }
    }

    // ---- ids: every name has one span id, ids are non-zero and distinct ----
    let mut id_of: HashMap<Ent, u64> = HashMap::new();
    {
        let mut owner: HashMap<u64, Ent> = HashMap::new();
        for r in &recs {
            let ent = match names.by_name.get(&r.name) {
                Some(e) => *e,
                None => {
                    v(&mut out, Cat::UnexpectedUnknown, "unknown-record", format!("record with a name the program never used: {:?}", r.name));
                    continue;
                }
            };
            let id = r.r.span_id.0;
            if id == 0 {
                v(&mut out, Cat::IdProblem, "zero-span-id", format!("{:?} has span id 0", r.name));
            }
            match id_of.get(&ent) {
                Some(prev) if *prev != id => {
                    v(&mut out, Cat::IdProblem, "copies-differ-in-id", format!("{:?} delivered with span ids {:x} and {:x}", r.name, prev, id));
                }
                _ => {
                    id_of.insert(ent, id);
                }
            }
            match owner.get(&id) {
                Some(o) if *o != ent => {
                    v(&mut out, Cat::IdProblem, "id-collision", format!("{:?} and {:?} share span id {:x}", o, ent, id));
                }
                _ => {
                    owner.insert(id, ent);
                }
            }
        }
    }
    let ent_of_id: HashMap<u64, Ent> = id_of.iter().map(|(e, i)| (*i, *e)).collect();
    let resolve = |p: &PRef| -> Option<u64> {
        match p {
            PRef::Remote(x) => Some(*x),
            PRef::S(l) => id_of.get(&Ent::S(*l)).copied(),
            PRef::L(l) => id_of.get(&Ent::L(*l)).copied(),
        }
    };

    // ---- presence, trace ids, parents ----
    let mut exp_by_name: HashMap<&str, Vec<usize>> = HashMap::new();
    for (i, e) in exps.iter().enumerate() {
        exp_by_name.entry(e.name.as_str()).or_default().push(i);
    }
    let mut rec_by_name: HashMap<&str, Vec<usize>> = HashMap::new();
    for (i, r) in recs.iter().enumerate() {
        rec_by_name.entry(r.name.as_str()).or_default().push(i);
    }
    // matched pairs (record index, expectation index)
    let mut pairs: Vec<(usize, usize)> = vec![];
    let mut all_names: Vec<&str> = exp_by_name.keys().copied().collect();
    for n in rec_by_name.keys() {
        if !exp_by_name.contains_key(n) {
            all_names.push(n);
        }
    }
    all_names.sort_unstable();
    for name in all_names {
        let es = exp_by_name.get(name).cloned().unwrap_or_default();
        let rs = rec_by_name.get(name).cloned().unwrap_or_default();
        if names.by_name.get(name).is_none() {
            continue; // reported above
        }
        let mut tids: Vec<u128> = es.iter().map(|i| exps[*i].trace_id).collect();
        tids.extend(rs.iter().map(|i| recs[*i].r.trace_id.0));
        tids.sort_unstable();
        tids.dedup();
        for tid in tids {
            let es_t: Vec<usize> = es.iter().copied().filter(|i| exps[*i].trace_id == tid).collect();
            let mut rs_t: Vec<usize> = rs.iter().copied().filter(|i| recs[*i].r.trace_id.0 == tid).collect();
            let deliverable: Vec<usize> =
                es_t.iter().copied().filter(|i| !matches!(exps[*i].need, Need::Forbidden(_))).collect();
            let n_req = deliverable.iter().filter(|i| exps[**i].need == Need::Required).count();
            if rs_t.len() > deliverable.len() {
                // surplus
                let forb = es_t.iter().find_map(|i| match exps[*i].need {
                    Need::Forbidden(c) => Some(c),
                    _ => None,
                });
                let surplus = rs_t.len() - deliverable.len();
                if deliverable.is_empty() {
                    // recorded finding: the cancel was parked in the cancelling thread's overflow
                    // list (full ring) and the root was finished by another thread, whose commit
                    // reached the collector first
                    let overtaken = es_t.iter().any(|i| {
                        let t = &m.traces[exps[*i].trace];
                        match (t.drop_send, t.cancel_op, t.finish_op) {
                            (Some(d), Some(co), Some(fo)) => parked_ring_full.contains(&send_time(prog, d)) && m.ops[co].thread != m.ops[fo].thread,
                            _ => false,
                        }
                    });
                    match forb {
                        Some(c) => v(
                            &mut out,
                            c,
                            match c {
                                Cat::UnexpectedUnsampled => "unsampled-delivered",
                                Cat::UnexpectedCancelled if overtaken => "parked-cancel-overtaken-cross-thread",
                                Cat::UnexpectedCancelled => "cancelled-delivered",
                                _ => "delivered-without-root-finish",
                            },
                            format!("{:?} delivered in trace {:032x} ({} record(s)) although that must not happen", name, tid, surplus),
                        ),
                        None => v(
                            &mut out,
                            Cat::WrongTraceId,
                            "wrong-trace-id",
                            format!("{:?} delivered with trace id {:032x}; expected one of {:?}", name, tid, es.iter().map(|i| format!("{:032x}", exps[*i].trace_id)).collect::<Vec<_>>()),
                        ),
                    }
                } else {
                    v(
                        &mut out,
                        Cat::Duplicate,
                        "duplicate-delivery",
                        format!("{:?} delivered {} times in trace {:032x}, expected at most {}", name, rs_t.len(), tid, deliverable.len()),
                    );
                }
            }
            if rs_t.len() < n_req {
                let e0 = &exps[deliverable[0]];
                // recorded finding: with cancelable(true), a span set consumed by a cycle that
                // has not yet seen its trace's StartCollect (sent earlier, through another queue)
                // is discarded
                let mut sig = "missing-record";
                if cfg.cancelable {
                    let start = m.traces[e0.trace].start_send.map(|x| send_time(prog, x));
                    if let (Some(sub), Some(st)) = (e0.submit, start) {
                        if let (Some(cs), Some(cst)) = (consumed_in_cycle(sub), consumed_in_cycle(st)) {
                            if cst > cs {
                                sig = "submit-consumed-before-start-cross-queue";
                            }
                        }
                    }
                }
                v(
                    &mut out,
                    Cat::Missing,
                    sig,
                    format!(
                        "{:?} (trace {:032x}) delivered {} time(s), expected {} (finished/submitted by flat op {})",
                        name,
                        tid,
                        rs_t.len(),
                        n_req,
                        e0.submit_flat
                    ),
                );
            }
            // pair records with expectations: by parent id where several copies share a trace id
            let mut free: Vec<usize> = deliverable.clone();
            // required first so that optional ones absorb the rest
            free.sort_by_key(|i| (exps[*i].need != Need::Required) as u8);
            rs_t.sort_by_key(|i| recs[*i].r.parent_id.0);
            for ri in rs_t {
                if free.is_empty() {
                    break;
                }
                let pid = recs[ri].r.parent_id.0;
                let k = free
                    .iter()
                    .position(|i| resolve(&exps[*i].parent) == Some(pid))
                    .or_else(|| free.iter().position(|i| resolve(&exps[*i].parent).is_none()))
                    .unwrap_or(0);
                let ei = free.remove(k);
                pairs.push((ri, ei));
            }
        }
    }
    for (ri, ei) in &pairs {
        let (r, e) = (&recs[*ri], &exps[*ei]);
        if let Some(want) = resolve(&e.parent) {
            cn.parent_checks += 1;
            if r.r.parent_id.0 != want {
                v(
                    &mut out,
                    Cat::WrongParent,
                    "wrong-parent",
                    format!("{:?} in trace {:032x}: parent id {:x}, expected {:x} ({:?})", r.name, e.trace_id, r.r.parent_id.0, want, e.parent),
                );
            }
        } else {
            // the expected parent's own record is not among the delivered ones, so its id is not
            // known; the record must at least not hang under a *different* known span
            let want_ent = match &e.parent {
                PRef::S(l) => Some(Ent::S(*l)),
                PRef::L(l) => Some(Ent::L(*l)),
                PRef::Remote(_) => None,
            };
            if let (Some(we), Some(other)) = (want_ent, ent_of_id.get(&r.r.parent_id.0)) {
                cn.parent_checks += 1;
                if *other != we {
                    v(
                        &mut out,
                        Cat::WrongParent,
                        "wrong-parent",
                        format!("{:?} in trace {:032x}: parent id {:x} is the id of {:?}, expected parent {:?} (whose own record was not delivered)", r.name, e.trace_id, r.r.parent_id.0, other, e.parent),
                    );
                }
            }
        }
    }

    // ---- delivery time: report call of each record ----
    let call_pos: Vec<PosInfo> = ex.reports.iter().map(|c| ex.pos.get(c.pos as usize).copied().unwrap_or_default()).collect();
    for (ri, ei) in &pairs {
        let (r, e) = (&recs[*ri], &exps[*ei]);
        let ready_sub = match e.submit {
            Some(s) => s,
            None => continue,
        };
        let mut ready = vec![ready_sub];
        if cfg.cancelable {
            if let Some(c) = commit_time[e.trace] {
                ready.push(c);
            }
        }
        let p = &call_pos[r.call];
        cn.call_checks += 1;
        if !ready.iter().all(|s| done_at(p, *s)) {
            v(
                &mut out,
                Cat::EarlyDelivery,
                "delivered-before-finished",
                format!("{:?} was reported in call #{} at {:?}, before it (or its trace's root) had finished (ready at {:?})", r.name, r.call, p, ready),
            );
        } else if cfg.strict_calls && e.need == Need::Required {
            // whole cycles drain everything: the first call made after the record became ready
            // must carry it
            let first = call_pos.iter().position(|p| ready.iter().all(|s| done_at(p, *s)));
            if first != Some(r.call) {
                v(
                    &mut out,
                    Cat::LateDelivery,
                    "not-in-first-cycle-after-finish",
                    format!("{:?} became ready at {:?} but was reported in call #{} instead of #{:?}", r.name, ready, r.call, first),
                );
            }
        }
    }
    // cancelable: one batch per trace
    if cfg.cancelable {
        let mut calls_of: HashMap<usize, HashSet<usize>> = HashMap::new();
        for (ri, ei) in &pairs {
            calls_of.entry(exps[*ei].trace).or_default().insert(recs[*ri].call);
        }
        for (t, calls) in calls_of {
            cn.batch_checks += 1;
            if calls.len() > 1 {
                let mut c: Vec<usize> = calls.into_iter().collect();
                c.sort_unstable();
                v(
                    &mut out,
                    Cat::BatchSplit,
                    "trace-split-across-calls",
                    format!("trace {:032x} (root {:?}) was delivered in report calls {:?}", m.traces[t].trace_id, sname(m.traces[t].root), c),
                );
            }
        }
    }
    {
        // evidence: traces whose commands were consumed by more than one collector cycle
        let mut calls_of: HashMap<usize, HashSet<usize>> = HashMap::new();
        for (ri, ei) in &pairs {
            calls_of.entry(exps[*ei].trace).or_default().insert(recs[*ri].call);
        }
        cn.traces_multi_cycle = calls_of.values().filter(|c| c.len() > 1).count();
    }

    // ---- attachments ----
    check_attachments(prog, ex, cfg, &exps, &pairs.iter().map(|(r, e)| (recs[*r].r, recs[*r].name.clone(), *e)).collect::<Vec<_>>(), &commit_time, &start_lost, &dropped, &consumed_map, &mut out, &mut cn);

    // ---- contexts ----
    let mut ctx_ids: HashMap<String, u64> = HashMap::new();
    let mut ctx_owner: HashMap<u64, String> = HashMap::new();
    for (flat, info) in m.ops.iter().enumerate() {
        if let Some(exp) = &info.ctx {
            let got = match ex.results.get(flat).map(|r| &r.kind) {
                Some(ResKind::Ctx(c)) => *c,
                _ => continue,
            };
            cn.ctx_checks += 1;
            match (exp, got) {
                (None, None) => {}
                (None, Some(g)) => v(&mut out, Cat::CtxMismatch, "ctx-some-expected-none", format!("flat op {}: context {:x?} returned where None is required", flat, g)),
                (Some(e), None) => v(&mut out, Cat::CtxMismatch, "ctx-none-expected-some", format!("flat op {}: None returned, expected context of {:?} in trace {:032x}", flat, e.1, m.traces[e.0].trace_id)),
                (Some((tr, pref, sampled)), Some((tid, sid, smp))) => {
                    if tid != m.traces[*tr].trace_id {
                        v(&mut out, Cat::CtxMismatch, "ctx-trace-id", format!("flat op {}: trace id {:032x}, expected {:032x}", flat, tid, m.traces[*tr].trace_id));
                    }
                    if smp != *sampled {
                        v(&mut out, Cat::CtxMismatch, "ctx-sampled", format!("flat op {}: sampled={}, expected {}", flat, smp, sampled));
                    }
                    if let Some(want) = resolve(pref) {
                        if sid != want {
                            v(&mut out, Cat::CtxMismatch, "ctx-span-id", format!("flat op {}: span id {:x}, expected {:x} ({:?})", flat, sid, want, pref));
                        }
                    } else if !matches!(pref, PRef::Remote(_)) {
                        // no delivered record tells which id the span has (unsampled trace, record
                        // not out yet): the id is still a real one, the same every time, and not
                        // the id of any other span
                        let key = format!("{:?}", pref);
                        if sid == 0 {
                            v(&mut out, Cat::CtxMismatch, "ctx-span-id-zero", format!("flat op {}: the context of {:?} carries span id 0", flat, pref));
                        } else {
                            match ctx_ids.get(&key) {
                                Some(prev) if *prev != sid => v(&mut out, Cat::CtxMismatch, "ctx-span-id-unstable", format!("flat op {}: the context of {:?} carries span id {:x}, earlier {:x}", flat, pref, sid, prev)),
                                _ => {}
                            }
                            match ctx_owner.get(&sid) {
                                Some(other) if *other != key => v(&mut out, Cat::CtxMismatch, "ctx-span-id-shared", format!("flat op {}: the contexts of {:?} and {} carry the same span id {:x}", flat, pref, other, sid)),
                                _ => {}
                            }
                            ctx_ids.insert(key.clone(), sid);
                            ctx_owner.insert(sid, key);
                        }
                    }
                }
            }
        }
        if let Some(exp) = info.elapsed {
            if let Some(ResKind::Elapsed(g)) = ex.results.get(flat).map(|r| &r.kind) {
                cn.ctx_checks += 1;
                if g.is_some() != exp {
                    v(&mut out, Cat::Timing, "elapsed-presence", format!("flat op {}: elapsed() returned {:?}, expected is_some()={}", flat, g, exp));
                }
            }
        }
    }
    // a root created from a returned context must carry exactly that context
    for t in &m.traces {
        if let Some(from) = t.from_ctx {
            if let Some(ResKind::Ctx(Some((tid, sid, _)))) = ex.results.get(from).map(|r| &r.kind) {
                for r in recs.iter().filter(|r| r.name == sname(t.root)) {
                    cn.ctx_checks += 1;
                    if r.r.trace_id.0 != *tid || r.r.parent_id.0 != *sid {
                        v(&mut out, Cat::CtxMismatch, "remote-child-mismatch", format!("root {:?} created from context ({:032x},{:x}) delivered with ({:032x},{:x})", r.name, tid, sid, r.r.trace_id.0, r.r.parent_id.0));
                    }
                }
            }
        }
    }
    for (a, b) in &cfg.frame_pairs {
        if let (Some(ResKind::Ctx(x)), Some(ResKind::Ctx(y))) = (ex.results.get(*a).map(|r| &r.kind), ex.results.get(*b).map(|r| &r.kind)) {
            cn.frame_checks += 1;
            if x != y {
                v(&mut out, Cat::FrameBroken, "context-not-restored", format!("current_local_parent() before the scope (flat {}) = {:x?}, after it (flat {}) = {:x?}", a, x, b, y));
            }
        }
    }

    // ---- closures: invoked exactly when the model says so ----
    for (flat, info) in m.ops.iter().enumerate() {
        if let Some(r) = ex.results.get(flat) {
            if !r.done || matches!(r.kind, ResKind::Panic(_)) {
                continue;
            }
            if info.closures_run + info.closures_lazy > 0 {
                cn.lazy_checks += 1;
                if r.closures != info.closures_run as u64 {
                    v(&mut out, Cat::Lazy, "closure-invocations", format!("flat op {}: {} property closure(s) invoked, expected {} (and {} that must stay uninvoked)", flat, r.closures, info.closures_run, info.closures_lazy));
                }
            }
        }
    }

    // ---- adapter outcomes pass through ----
    {
        fn walk(ops: &[Op], flat: &mut usize, ex: &Execution, out: &mut Vec<Violation>) {
            for op in ops {
                match op {
                    Op::ACall { steps, outcome, .. } => {
                        *flat += 1;
                        walk(steps, flat, ex, out);
                        if let Some(ResKind::Outcome(g)) = ex.results.get(*flat).map(|r| &r.kind) {
                            if g != outcome {
                                out.push(Violation { cat: Cat::Outcome, sig: "adapter-outcome".into(), detail: format!("adapter call ending at flat {} returned {:?}, inner returned {:?}", flat, g, outcome) });
                            }
                        }
                        *flat += 1;
                    }
                    Op::Reent { steps, .. } | Op::Unwind { steps, .. } => {
                        *flat += 1;
                        walk(steps, flat, ex, out);
                        *flat += 1;
                    }
                    _ => *flat += 1,
                }
            }
        }
        let mut flat = 0;
        let tops: Vec<Op> = prog.ops.iter().map(|(_, o)| o.clone()).collect();
        walk(&tops, &mut flat, ex, &mut out);
    }

    // ---- copies of collected sets; to_span_records ----
    check_copies(prog, ex, &exps, &pairs.iter().map(|(r, e)| (recs[*r].r, *e)).collect::<Vec<_>>(), &mut out, &mut cn);

    // ---- timing ----
    if cfg.timing {
        check_timing(prog, ex, &exps, &pairs.iter().map(|(r, e)| (recs[*r].r, *e)).collect::<Vec<_>>(), &mut out, &mut cn);
    }

    // ---- collector state at quiescence ----
    if cfg.check_stats {
        let st = &ex.stats;
        // span sets held back for one cycle are gone after the two closing cycles of a program,
        // whatever happened before
        if st.held_span_sets != 0 {
            v(&mut out, Cat::Stats, "held-span-sets", format!("the collector still holds {} span sets of traces it does not know, two full cycles after the last operation", st.held_span_sets));
        }
        let mut want: Vec<usize> = vec![];
        for t in &m.traces {
            if let Some(n) = t.nth_sampled {
                let alive = t.finish_op.is_none() && !(cfg.cancelable && t.cancel_op.is_some());
                if alive {
                    want.push(cfg.collect_base + n);
                }
            }
        }
        want.sort_unstable();
        // commits and cancels are never dropped, so the entries are exact even after a full-queue
        // episode; the other counters are only exact when nothing was dropped
        if !dropped.is_empty() {
            if st.active_collect_ids.iter().any(|id| !want.contains(id)) {
                v(&mut out, Cat::Stats, "active-collectors", format!("after a full-queue episode the collector still holds entries for collect ids {:?}, expected a subset of {:?}", st.active_collect_ids, want));
            }
            if st.scratch_len != 0 {
                v(&mut out, Cat::Stats, "scratch-not-empty", format!("{} commands left in the collector's scratch vectors", st.scratch_len));
            }
        }
        if dropped.is_empty() {
            if st.active_collect_ids != want {
                v(&mut out, Cat::Stats, "active-collectors", format!("collector holds entries for collect ids {:?}, expected {:?}", st.active_collect_ids, want));
            }
            if st.scratch_len != 0 {
                v(&mut out, Cat::Stats, "scratch-not-empty", format!("{} commands left in the collector's scratch vectors", st.scratch_len));
            }
            if want.is_empty() && (st.buffered_span_sets != 0 || st.danglings != 0) {
                v(&mut out, Cat::Stats, "state-for-finished-traces", format!("no trace is in flight but the collector buffers {} span sets and {} parked attachments", st.buffered_span_sets, st.danglings));
            }
            if st.receivers != ex.workers_alive {
                v(&mut out, Cat::Stats, "receivers", format!("{} command queues registered, {} threads alive", st.receivers, ex.workers_alive));
            }
        }
    }

    OracleOut { violations: out, counters: cn }
}

fn att_keys(a: &Att) -> Vec<u32> {
    match a.kind {
        AttKind::Props { k0, n } => (k0..k0 + n as u32).collect(),
        AttKind::Event { .. } => vec![],
    }
}

#[allow(clippy::too_many_arguments)]
fn check_attachments(
    prog: &Program,
    _ex: &Execution,
    cfg: &OracleCfg,
    exps: &[Exp],
    pairs: &[(&SpanRecord, String, usize)],
    commit_time: &[Option<(usize, usize)>],
    start_lost: &[bool],
    dropped: &HashSet<(usize, usize)>,
    consumed: &HashMap<(usize, usize), usize>,
    out: &mut Vec<Violation>,
    cn: &mut Counters,
) {
    let m = &prog.model;
    // how many copies of an entity were delivered in one trace id (known defect shape)
    let mut copies: HashMap<(Ent, u128), usize> = HashMap::new();
    for (_, _, ei) in pairs {
        *copies.entry((exps[*ei].ent, exps[*ei].trace_id)).or_insert(0) += 1;
    }
    // owner of every key / event name
    let mut key_owner: HashMap<String, Ent> = HashMap::new();
    let mut ev_owner: HashMap<String, Ent> = HashMap::new();
    fn reg(key_owner: &mut HashMap<String, Ent>, ev_owner: &mut HashMap<String, Ent>, ent: Ent, a: &Att) {
        match a.kind {
            AttKind::Props { .. } => {
                for k in att_keys(a) {
                    key_owner.insert(key(k), ent);
                }
            }
            AttKind::Event { e, .. } => {
                ev_owner.insert(ename(e), ent);
            }
        }
    }
    for s in m.spans.values() {
        for k in &s.props {
            key_owner.insert(key(*k), Ent::S(s.l));
        }
        for a in &s.atts {
            reg(&mut key_owner, &mut ev_owner, Ent::S(s.l), a);
        }
    }
    for l in m.locals.values() {
        for k in &l.props {
            key_owner.insert(key(*k), Ent::L(l.l));
        }
        for a in &l.atts {
            reg(&mut key_owner, &mut ev_owner, Ent::L(l.l), a);
        }
    }
    // a root-level attachment of a collected set may have several owners (every push parent)
    let mut multi_owner: HashMap<String, Vec<Ent>> = HashMap::new();
    for line in &m.lines {
        match &line.kind {
            LineKind::Guard(s) => {
                for a in &line.root_atts {
                    reg(&mut key_owner, &mut ev_owner, Ent::S(*s), a);
                }
            }
            LineKind::Collector(_) => {
                for a in &line.root_atts {
                    for (_, p, _) in &line.pushes {
                        reg(&mut key_owner, &mut ev_owner, Ent::S(*p), a);
                        match a.kind {
                            AttKind::Props { .. } => {
                                for k in att_keys(a) {
                                    multi_owner.entry(key(k)).or_default().push(Ent::S(*p));
                                }
                            }
                            AttKind::Event { e, .. } => multi_owner.entry(ename(e)).or_default().push(Ent::S(*p)),
                        }
                    }
                }
            }
        }
    }
    let owns = |map: &HashMap<String, Ent>, name: &str, ent: Ent| -> Option<bool> {
        if let Some(v) = multi_owner.get(name) {
            return Some(v.contains(&ent));
        }
        map.get(name).map(|o| *o == ent)
    };

    for (r, rname, ei) in pairs {
        let e = &exps[*ei];
        let dup_shape = copies.get(&(e.ent, e.trace_id)).copied().unwrap_or(0) > 1;
        // expected attachments: (att, must)
        let mut want_props_prefix: Vec<u32> = vec![];
        let mut atts: Vec<(&Att, bool, Option<SendRef>)> = vec![];
        let root_commit = commit_time[e.trace];
        let lost_start = start_lost[e.trace];
        match e.ent {
            Ent::S(l) => {
                let s = &m.spans[&l];
                want_props_prefix = s.props.clone();
                let span_submit = e.submit;
                // (a) the span finishes no later than its trace's root
                let a_ok = match (span_submit, root_commit) {
                    (Some(s), Some(c)) => s < c,
                    (Some(_), None) => true,
                    _ => false,
                };
                for a in &s.atts {
                    let att_sub = a.submit_send.map(|x| send_time(prog, x));
                    let must = a_ok && !lost_start && att_sub.map(|x| !dropped.contains(&x)).unwrap_or(false);
                    atts.push((a, must, a.submit_send));
                }
                for line in &m.lines {
                    match &line.kind {
                        LineKind::Guard(gs) if *gs == l => {
                            let line_sub = line.submit_send.map(|x| send_time(prog, x));
                            // (b) the carrying scope ended before the span finished
                            let b_ok = match (line_sub, span_submit) {
                                (Some(ls), Some(ss)) => ls < ss,
                                _ => false,
                            };
                            for a in &line.root_atts {
                                let must = a_ok && b_ok && !lost_start && line_sub.map(|x| !dropped.contains(&x)).unwrap_or(false);
                                atts.push((a, must, line.submit_send));
                            }
                        }
                        LineKind::Collector(_) => {
                            for (_, p, sref) in &line.pushes {
                                if *p == l {
                                    let ps = sref.map(|x| send_time(prog, x));
                                    let b_ok = match (ps, span_submit) {
                                        (Some(ls), Some(ss)) => ls < ss,
                                        _ => false,
                                    };
                                    for a in &line.root_atts {
                                        let must = a_ok && b_ok && !lost_start && ps.map(|x| !dropped.contains(&x)).unwrap_or(false);
                                        atts.push((a, must, *sref));
                                    }
                                }
                            }
                        }
                        _ => {}
                    }
                }
            }
            Ent::L(l) => {
                let ml = &m.locals[&l];
                want_props_prefix = ml.props.clone();
                // attachments recorded in the same span set as their target: always together
                for a in &ml.atts {
                    atts.push((a, true, None));
                }
            }
        }
        // default configuration, stepped schedules: an attachment sent through another queue may be
        // consumed by a later cycle than the one that consumed (and reported) its target, although
        // it was made first. The statement quantifies over whole cycles falling between attachment
        // and finish, so such an attachment is not demanded (at most once still is).
        if !cfg.cancelable {
            if let Some(sc) = e.submit.and_then(|s| consumed.get(&s).copied()) {
                for (_a, must, carrier) in atts.iter_mut() {
                    if let Some(ac) = carrier.map(|x| send_time(prog, x)).and_then(|s| consumed.get(&s).copied()) {
                        if ac > sc {
                            *must = false;
                        }
                    }
                }
            }
        }
        cn.attach_checks += 1;
        atts.sort_by_key(|(a, _, _)| a.op);
        // properties
        let got: Vec<(String, String)> = r.properties.iter().map(|(k, v)| (k.to_string(), v.to_string())).collect();
        // 1. nothing that belongs elsewhere, nothing unknown
        for (k, _) in &got {
            match owns(&key_owner, k, e.ent) {
                Some(true) => {}
                Some(false) => v(out, Cat::AttachMisplaced, "property-on-wrong-span", format!("property {:?} of {:?} found on {:?}", k, key_owner.get(k), rname)),
                None => v(out, Cat::AttachMisplaced, "unknown-property", format!("property key {:?} on {:?} was never attached by the program", k, rname)),
            }
        }
        // 2. creation properties come first, in order, bytes unchanged
        let prefix: Vec<(String, String)> = want_props_prefix.iter().map(|k| (key(*k), val(*k))).collect();
        if got.len() < prefix.len() || got[..prefix.len()] != prefix[..] {
            v(out, Cat::AttachMissing, "creation-properties", format!("{:?}: properties {:?} do not start with the creation properties {:?}", rname, short(&got), short(&prefix)));
        }
        // 3. attached properties: exactly once where the provisos hold, at most once otherwise
        let rest: Vec<(String, String)> = if got.len() >= prefix.len() { got[prefix.len()..].to_vec() } else { vec![] };
        let mut pos_of: HashMap<&str, Vec<usize>> = HashMap::new();
        for (i, (k, _)) in rest.iter().enumerate() {
            pos_of.entry(k.as_str()).or_default().push(i);
        }
        let known = |sig: &str| -> String {
            if dup_shape {
                "dup-attach-same-trace-parents".to_string()
            } else {
                sig.to_string()
            }
        };
        // recorded finding [D11]: the command carrying the attachment was consumed by a collector
        // cycle before the StartCollect of the trace (sent earlier through another queue)
        let start_cycle = m.traces[e.trace].start_send.map(|x| send_time(prog, x)).and_then(|s| consumed.get(&s).copied());
        let missing_sig = |carrier: Option<SendRef>, base: &str| -> String {
            let cc = carrier.map(|x| send_time(prog, x)).and_then(|s| consumed.get(&s).copied());
            match (cc, start_cycle) {
                // two copies of the target in one trace explain a missing attachment on their own
                // (finding D6), whenever the carrier was consumed
                _ if dup_shape => known(base),
                // D11's remaining half exists in the default configuration only; with cancelable
                // such a set is kept for a cycle and attached (repaired)
                (Some(c), Some(st)) if st > c && !cfg.cancelable => "submit-consumed-before-start-cross-queue".to_string(),
                _ => known(base),
            }
        };
        // order: per (route, thread), position of the last attachment and the scope that carried it
        let order_sig = |prev_line: Option<usize>, line: Option<usize>, base: &str| -> String {
            if dup_shape {
                "dup-attach-same-trace-parents".to_string()
            } else if prev_line.is_some() && line.is_some() && prev_line != line {
                // carried by two different scopes of one thread on the same span: the scope that
                // ends first is submitted first (recorded finding)
                "attach-order-across-nested-scopes".to_string()
            } else {
                base.to_string()
            }
        };
        let mut route_last: HashMap<(Route, usize), (usize, Option<usize>)> = HashMap::new();
        for (a, must, carrier) in &atts {
            if let AttKind::Props { .. } = a.kind {
                let mut positions = vec![];
                for k in att_keys(a) {
                    let ks = key(k);
                    let ps = pos_of.get(ks.as_str()).cloned().unwrap_or_default();
                    if ps.len() > 1 {
                        v(out, Cat::AttachDup, &known("property-duplicated"), format!("{:?}: property {:?} appears {} times", rname, ks, ps.len()));
                    }
                    if ps.is_empty() && *must {
                        v(out, Cat::AttachMissing, &missing_sig(*carrier, "property-missing"), format!("{:?}: property {:?} (attached by flat op {}, route {:?}) is missing", rname, ks, a.op, a.route));
                    }
                    if let Some(p) = ps.first() {
                        if rest[*p].1 != val(k) {
                            v(out, Cat::AttachMissing, "property-value-changed", format!("{:?}: property {:?} has value {:?}, expected {:?}", rname, ks, rest[*p].1, val(k)));
                        }
                        positions.push(*p);
                    }
                }
                // order within one attachment and between attachments of the same (route, thread)
                if positions.windows(2).any(|w| w[0] >= w[1]) {
                    v(out, Cat::AttachOrder, &known("property-order"), format!("{:?}: properties of one add_properties call out of order", rname));
                }
                if let Some(first) = positions.first() {
                    let key = (a.route, a.thread);
                    if let Some((last, pline)) = route_last.get(&key) {
                        if *first <= *last {
                            v(out, Cat::AttachOrder, &order_sig(*pline, a.line, "property-order"), format!("{:?}: properties attached through {:?} by thread {} are not in attachment order (flat op {})", rname, a.route, a.thread, a.op));
                        }
                    }
                    route_last.insert(key, (*positions.last().unwrap(), a.line));
                }
            }
        }
        // events
        let mut ev_pos: HashMap<String, Vec<usize>> = HashMap::new();
        let filler = matches!(e.ent, Ent::S(l) if m.spans[&l].filler);
        for (i, ev) in r.events.iter().enumerate() {
            let n = ev.name.to_string();
            if filler && n == "fill" {
                continue;
            }
            match owns(&ev_owner, &n, e.ent) {
                Some(true) => {}
                Some(false) => v(out, Cat::AttachMisplaced, "event-on-wrong-span", format!("event {:?} of {:?} found on {:?}", n, ev_owner.get(&n), rname)),
                None => v(out, Cat::AttachMisplaced, "unknown-event", format!("event {:?} on {:?} was never added by the program", n, rname)),
            }
            ev_pos.entry(n).or_default().push(i);
        }
        let mut ev_last: HashMap<(Route, usize), (usize, Option<usize>)> = HashMap::new();
        for (a, must, carrier) in &atts {
            if let AttKind::Event { e: en, k0, np } = a.kind {
                let n = ename(en);
                let ps = ev_pos.get(&n).cloned().unwrap_or_default();
                if ps.len() > 1 {
                    v(out, Cat::AttachDup, &known("event-duplicated"), format!("{:?}: event {:?} appears {} times", rname, n, ps.len()));
                }
                if ps.is_empty() && *must {
                    v(out, Cat::AttachMissing, &missing_sig(*carrier, "event-missing"), format!("{:?}: event {:?} (added by flat op {}, route {:?}) is missing", rname, n, a.op, a.route));
                }
                if let Some(p) = ps.first() {
                    let want: Vec<(String, String)> = (k0..k0 + np as u32).map(|k| (key(k), val(k))).collect();
                    let gotp: Vec<(String, String)> = r.events[*p].properties.iter().map(|(k, v)| (k.to_string(), v.to_string())).collect();
                    if want != gotp {
                        v(out, Cat::AttachMissing, "event-properties", format!("{:?}: event {:?} has properties {:?}, expected {:?}", rname, n, short(&gotp), short(&want)));
                    }
                    let key = (a.route, a.thread);
                    if let Some((last, pline)) = ev_last.get(&key) {
                        if *p <= *last {
                            v(out, Cat::AttachOrder, &order_sig(*pline, a.line, "event-order"), format!("{:?}: events added through {:?} by thread {} are not in order (flat op {})", rname, a.route, a.thread, a.op));
                        }
                    }
                    ev_last.insert(key, (*p, a.line));
                }
            }
        }
        let _ = cfg;
    }
}

fn short(v: &[(String, String)]) -> Vec<(String, String)> {
    v.iter()
        .map(|(k, x)| {
            let cut = |s: &String| if s.len() > 40 { format!("{}…({}B)", s.chars().take(24).collect::<String>(), s.len()) } else { s.clone() };
            (cut(k), cut(x))
        })
        .collect()
}

fn check_copies(
    prog: &Program,
    ex: &Execution,
    exps: &[Exp],
    pairs: &[(&SpanRecord, usize)],
    out: &mut Vec<Violation>,
    cn: &mut Counters,
) {
    let m = &prog.model;
    // all delivered copies of one entity must agree in everything but trace id and parent id
    let mut by_ent: HashMap<Ent, Vec<&SpanRecord>> = HashMap::new();
    for (r, ei) in pairs {
        by_ent.entry(exps[*ei].ent).or_default().push(r);
    }
    let mut multi = 0;
    for (ent, rs) in &by_ent {
        if rs.len() < 2 {
            continue;
        }
        multi += 1;
        // copies per trace id: where one trace holds several copies of the entity, what is mounted
        // on them is subject to a recorded finding; those copies are compared structurally only
        let mut per_trace: HashMap<u128, usize> = HashMap::new();
        for r in rs.iter() {
            *per_trace.entry(r.trace_id.0).or_insert(0) += 1;
        }
        let single = |r: &SpanRecord| per_trace[&r.trace_id.0] == 1;
        let a = rs.iter().copied().find(|r| single(r)).unwrap_or(rs[0]);
        for b in rs.iter().copied() {
            if std::ptr::eq(a, b) {
                continue;
            }
            cn.copy_checks += 1;
            let dur_ok = a.duration_ns.abs_diff(b.duration_ns) <= 2;
            let structural = a.span_id == b.span_id && a.name == b.name;
            let content = a.properties == b.properties
                && a.events.len() == b.events.len()
                && a.events.iter().zip(b.events.iter()).all(|(x, y)| x.name == y.name && x.properties == y.properties);
            // thread-safe spans: what is mounted on a copy depends on that copy's trace (C06
            // provisos), so content is compared for local spans only
            let content = content || matches!(ent, Ent::S(_));
            let reliable = single(a) && single(b);
            if !structural || !dur_ok || (!content && reliable) {
                v(
                    out,
                    Cat::CopyDiff,
                    "copies-differ",
                    format!("copies of {:?} differ: ids {:x}/{:x}, durations {}/{}, props {}/{}, events {}/{}", ent, a.span_id.0, b.span_id.0, a.duration_ns, b.duration_ns, a.properties.len(), b.properties.len(), a.events.len(), b.events.len()),
                );
            } else if !content {
                v(out, Cat::CopyDiff, "dup-attach-same-trace-parents", format!("copies of {:?} within one trace differ in mounted events/properties", ent));
            }
        }
    }
    let _ = multi;
    // to_span_records(ctx) against the model and against delivered copies
    let mut flat = 0usize;
    fn walk<'a>(ops: impl Iterator<Item = &'a Op>, flat: &mut usize, f: &mut dyn FnMut(usize, &'a Op)) {
        for op in ops {
            match op {
                Op::ACall { steps, .. } | Op::Reent { steps, .. } | Op::Unwind { steps, .. } => {
                    f(*flat, op);
                    *flat += 1;
                    walk(steps.iter(), flat, f);
                    *flat += 1;
                }
                _ => {
                    f(*flat, op);
                    *flat += 1;
                }
            }
        }
    }
    let mut to_recs: Vec<(usize, u32, u128, u64)> = vec![];
    walk(prog.ops.iter().map(|(_, o)| o), &mut flat, &mut |fl, op| {
        if let Op::ToRecords { set, trace_id, span_id } = op {
            to_recs.push((fl, *set, *trace_id, *span_id));
        }
    });
    for (fl, set, tid, sid) in to_recs {
        let got = match ex.results.get(fl).map(|r| &r.kind) {
            Some(ResKind::Records(r)) => r.clone(),
            _ => vec![],
        };
        let line = match m.sets.get(&set) {
            Some(Some(li)) => &m.lines[*li],
            _ => {
                if !got.is_empty() {
                    v(out, Cat::CopyDiff, "to-records-nonempty", format!("to_span_records of an empty set returned {} records", got.len()));
                }
                continue;
            }
        };
        cn.copy_checks += 1;
        // names in recording order
        // the local span of an `enter_on_poll` adapter carries the adapter's name
        let want_names: Vec<String> = line
            .locals
            .iter()
            .map(|l| match m.locals.get(l).and_then(|ml| ml.poll_of) {
                Some(a) => pname(a),
                None => lname(*l),
            })
            .collect();
        let got_names: Vec<String> = got.iter().map(|r| r.name.to_string()).collect();
        if want_names != got_names {
            v(out, Cat::CopyDiff, "to-records-names", format!("to_span_records returned {:?}, the set holds {:?}", got_names, want_names));
            continue;
        }
        let idmap: HashMap<u32, u64> = line.locals.iter().zip(got.iter()).map(|(l, r)| (*l, r.span_id.0)).collect();
        for (l, r) in line.locals.iter().zip(got.iter()) {
            let ml = &m.locals[l];
            let want_parent = ml.parent.map(|p| idmap[&p]).unwrap_or(sid);
            if r.trace_id.0 != tid || r.parent_id.0 != want_parent {
                v(out, Cat::CopyDiff, "to-records-ids", format!("to_span_records: {:?} has (trace {:032x}, parent {:x}), expected ({:032x}, {:x})", r.name, r.trace_id.0, r.parent_id.0, tid, want_parent));
            }
            // properties: creation + with_properties, then local attachments in order
            let mut want_props: Vec<(String, String)> = ml.props.iter().map(|k| (key(*k), val(*k))).collect();
            let mut want_events: Vec<String> = vec![];
            for a in &ml.atts {
                match a.kind {
                    AttKind::Props { k0, n } => want_props.extend((k0..k0 + n as u32).map(|k| (key(k), val(k)))),
                    AttKind::Event { e, .. } => want_events.push(ename(e)),
                }
            }
            let gp: Vec<(String, String)> = r.properties.iter().map(|(k, v)| (k.to_string(), v.to_string())).collect();
            let ge: Vec<String> = r.events.iter().map(|e| e.name.to_string()).collect();
            if gp != want_props || ge != want_events {
                v(out, Cat::CopyDiff, "to-records-content", format!("to_span_records: {:?} has properties {:?} / events {:?}, expected {:?} / {:?}", r.name, short(&gp), ge, short(&want_props), want_events));
            }
            // duration against the operation brackets (spans open at collect end at the collect)
            if let Some((lo, hi, tol)) = local_bounds(prog, ex, *l) {
                cn.timing_checks += 1;
                if r.duration_ns + tol < lo || r.duration_ns > hi + tol {
                    v(out, Cat::Timing, "to-records-duration", format!("to_span_records: {:?} has duration {} ns outside [{}, {}] (+-{} ns) measured around its start and its finish / the collect", r.name, r.duration_ns, lo, hi, tol));
                }
            }
            // against a delivered copy of the same local span
            if let Some(copies) = by_ent.get(&Ent::L(*l)) {
                let c = copies[0];
                cn.copy_checks += 1;
                if c.span_id != r.span_id || c.duration_ns.abs_diff(r.duration_ns) > 2 || c.begin_time_unix_ns.abs_diff(r.begin_time_unix_ns) > 5_000_000 {
                    v(out, Cat::CopyDiff, "to-records-vs-delivered", format!("{:?}: to_span_records gives (id {:x}, begin {}, dur {}), delivered copy has (id {:x}, begin {}, dur {})", r.name, r.span_id.0, r.begin_time_unix_ns, r.duration_ns, c.span_id.0, c.begin_time_unix_ns, c.duration_ns));
                }
            }
        }
    }
}

const TOL_NS: u64 = 200_000;

/// Bounds on a duration measured between two bracketed operations: fastant's calibrated clock may
/// run up to a few parts per thousand off the OS monotonic clock used for the brackets.
fn tol_for(hi: u64) -> u64 {
    TOL_NS + hi / 200
}

/// (lo, hi, tolerance) for the duration of a local span from the brackets of its enter and of its
/// exit (or, when it was still open, of the operation that closed its line).
fn local_bounds(prog: &Program, ex: &Execution, l: u32) -> Option<(u64, u64, u64)> {
    let m = &prog.model;
    let ml = m.locals.get(&l)?;
    let fin = match ml.exit_op {
        Some(x) => x,
        None => m.lines[ml.line].close_op?,
    };
    let c = ex.results.get(ml.enter_op).filter(|r| r.done && !matches!(r.kind, ResKind::Panic(_)))?;
    let f = ex.results.get(fin).filter(|r| r.done && !matches!(r.kind, ResKind::Panic(_)))?;
    let lo = f.t0.saturating_sub(c.t1);
    let hi = f.t1.saturating_sub(c.t0);
    Some((lo, hi, tol_for(hi)))
}

fn check_timing(
    prog: &Program,
    ex: &Execution,
    exps: &[Exp],
    pairs: &[(&SpanRecord, usize)],
    out: &mut Vec<Violation>,
    cn: &mut Counters,
) {
    let m = &prog.model;
    // an operation that panicked has no brackets (the panic itself is reported under Cat::Panic)
    let res = |flat: usize| ex.results.get(flat).filter(|r| r.done && !matches!(r.kind, ResKind::Panic(_))).cloned();
    let mut seen: HashSet<(Ent, u128, u64)> = HashSet::new();
    let mut interval: HashMap<Ent, (u64, u64)> = HashMap::new();
    for (r, ei) in pairs {
        let e = &exps[*ei];
        if !seen.insert((e.ent, e.trace_id, r.parent_id.0)) {
            continue;
        }
        let (create_flat, finish_flat, open_at_collect) = match e.ent {
            Ent::S(l) => {
                let s = &m.spans[&l];
                (s.create_op, s.finish_op, false)
            }
            Ent::L(l) => {
                let ml = &m.locals[&l];
                match ml.exit_op {
                    Some(x) => (ml.enter_op, Some(x), false),
                    None => (ml.enter_op, m.lines[ml.line].close_op, true),
                }
            }
        };
        let (c, f) = match (res(create_flat), finish_flat.and_then(res)) {
            (Some(c), Some(f)) => (c, f),
            _ => continue,
        };
        let _ = open_at_collect;
        cn.timing_checks += 1;
        if f.t0.saturating_sub(c.t1) >= 1_000_000_000 {
            cn.timing_long += 1;
            if matches!(e.ent, Ent::L(_)) {
                cn.timing_long_local += 1;
            }
        }
        // a poll-local span begins after the call began and before the call's end index began
        let lo = f.t0.saturating_sub(c.t1);
        let hi = f.t1.saturating_sub(c.t0);
        let tol = tol_for(hi);
        if r.duration_ns + tol < lo || r.duration_ns > hi + tol {
            v(out, Cat::Timing, "duration", format!("{:?}: duration {} ns outside [{}, {}] (+-{} ns) measured around its creation (flat {}) and finish (flat {:?})", r.name, r.duration_ns, lo, hi, tol, create_flat, finish_flat));
        }
        let sys_lo = c.sys0.saturating_sub(50_000_000);
        let sys_hi = c.sys0 + (c.t1 - c.t0) + 50_000_000;
        if r.begin_time_unix_ns < sys_lo || r.begin_time_unix_ns > sys_hi {
            v(out, Cat::Timing, "begin-time", format!("{:?}: begin_time_unix_ns {} outside the wall-clock window [{}, {}] of its creation", r.name, r.begin_time_unix_ns, sys_lo, sys_hi));
        }
        interval.entry(e.ent).or_insert((r.begin_time_unix_ns, r.begin_time_unix_ns + r.duration_ns));
        // events lie within op brackets relative to the record's begin
        if let Ent::L(l) = e.ent {
            let ml = &m.locals[&l];
            for ev in &r.events {
                cn.timing_checks += 1;
                if ev.timestamp_unix_ns + 2_000 < r.begin_time_unix_ns || ev.timestamp_unix_ns > r.begin_time_unix_ns + r.duration_ns + 2_000 {
                    v(out, Cat::Timing, "event-outside-span", format!("event {:?} at {} outside its local span {:?} [{}, +{}]", ev.name, ev.timestamp_unix_ns, r.name, r.begin_time_unix_ns, r.duration_ns));
                }
            }
            let _ = ml;
        }
    }
    // nesting and sibling order of local spans within one line
    for line in &m.lines {
        let mut last_sibling_end: HashMap<Option<u32>, (u64, u32)> = HashMap::new();
        for l in &line.locals {
            let ml = &m.locals[l];
            let me = match interval.get(&Ent::L(*l)) {
                Some(x) => *x,
                None => continue,
            };
            if let Some(p) = ml.parent {
                if let Some(pi) = interval.get(&Ent::L(p)) {
                    cn.timing_checks += 1;
                    if me.0 + 2_000 < pi.0 || me.1 > pi.1 + 2_000 {
                        v(out, Cat::Timing, "child-outside-parent", format!("local span {:?} [{}, {}] is not within its enclosing local span {:?} [{}, {}]", lname(*l), me.0, me.1, lname(p), pi.0, pi.1));
                    }
                }
            }
            if let Some((end, prev)) = last_sibling_end.get(&ml.parent) {
                cn.timing_checks += 1;
                if me.0 + 2_000 < *end {
                    v(out, Cat::Timing, "siblings-overlap", format!("local span {:?} begins at {} before its earlier sibling {:?} ended at {}", lname(*l), me.0, lname(*prev), end));
                }
            }
            last_sibling_end.insert(ml.parent, (me.1, *l));
        }
    }
    // elapsed()
    for (flat, info) in m.ops.iter().enumerate() {
        if info.elapsed == Some(true) {
            if let Some(OpResult { kind: ResKind::Elapsed(Some(el)), t0, t1, .. }) = res(flat) {
                // find the span: the op itself
                let top = prog.top_of_flat(flat);
                let span = find_elapsed_span(&prog.ops[top].1, flat - prog.flat_base[top]);
                if let Some(sp) = span {
                    if let Some(c) = res(m.spans[&sp].create_op) {
                        cn.timing_checks += 1;
                        let lo = t0.saturating_sub(c.t1);
                        let hi = t1.saturating_sub(c.t0);
                        let tol = tol_for(hi);
                        if el + tol < lo || el > hi + tol {
                            v(out, Cat::Timing, "elapsed", format!("elapsed() of {:?} returned {} ns, outside [{}, {}]", sname(sp), el, lo, hi));
                        }
                    }
                }
            }
        }
    }
}

fn find_elapsed_span(op: &Op, rel: usize) -> Option<u32> {
    fn go(op: &Op, rel: &mut usize) -> Option<Option<u32>> {
        if *rel == 0 {
            return Some(match op {
                Op::Elapsed { span } => Some(*span),
                _ => None,
            });
        }
        *rel -= 1;
        if let Op::ACall { steps, .. } | Op::Reent { steps, .. } | Op::Unwind { steps, .. } = op {
            for s in steps {
                if let Some(x) = go(s, rel) {
                    return Some(x);
                }
            }
            if *rel == 0 {
                return Some(None);
            }
            *rel -= 1;
        }
        None
    }
    let mut r = rel;
    go(op, &mut r).flatten()
}
