//! Operation vocabulary of the span-API programs, and the unique strings they use.

use std::sync::atomic::{AtomicU8, Ordering};

/// Kind of an adapter object (fastrace `FutureExt` and fastrace-futures `StreamExt`/`SinkExt`).
#[derive(Clone, Copy, Debug, PartialEq, Eq)]
pub enum AKind {
    Future,
    Stream,
    Sink,
    /// one object that is both a Stream and a Sink (a framed connection), wrapped by `in_span`:
    /// the span is released by whichever half finishes first, the other half stays usable
    Duplex,
}

#[derive(Clone, Copy, Debug, PartialEq, Eq)]
pub enum AMethod {
    Poll,
    PollNext,
    PollReady,
    StartSend,
    PollFlush,
    PollClose,
}

#[derive(Clone, Copy, Debug, PartialEq, Eq)]
pub enum AOutcome {
    Pending,
    /// Future: Ready(v); Stream: Ready(Some(v)); Sink: Ready(Ok) / Ok
    Value,
    /// Stream: Ready(None)
    End,
    /// Sink: Ready(Err) / Err
    Error,
    /// the inner object panics after its steps (unwinding through whatever the steps left open
    /// and through the adapter's own scope); the caller contains the panic, as an executor does
    /// around a task poll, and only drops the adapter afterwards
    Panic,
}

#[derive(Clone, Debug, PartialEq)]
pub enum Op {
    /// `Span::root(name, SpanContext{trace_id, parent, sampled})`, then `with_properties` of `np` pairs
    Root { l: u32, trace_id: u128, parent: u64, sampled: bool, np: u8, k0: u32 },
    /// `enter_with_parent` (single) or `enter_with_parents`
    Child { l: u32, parents: Vec<u32>, single: bool, np: u8, k0: u32 },
    /// `Span::enter_with_local_parent`
    ChildLocal { l: u32, np: u8, k0: u32 },
    /// `Span::noop()`
    Noop { l: u32 },
    /// `span.set_local_parent()`; the guard becomes the thread's top frame
    Guard { span: u32 },
    /// `LocalSpan::enter_with_local_parent(name).with_properties(..)`; top frame
    LEnter { l: u32, np: u8, k0: u32 },
    /// `LocalCollector::start()`; top frame
    LcStart { set: u32 },
    /// drop the top frame (a local collector is `collect()`ed into its set)
    Pop,
    /// `collect()` the collector that is second from the top while the local span on top of it
    /// is still open, then drop that local span (only generated with no enclosing scope)
    LcCollectOpen,
    /// `parent.push_child_spans(set.clone())` for each parent
    PushSet { set: u32, parents: Vec<u32> },
    /// `set.to_span_records(ctx)`
    ToRecords { set: u32, trace_id: u128, span_id: u64 },
    /// `span.add_properties(|| n pairs)` (n == 1: `add_property`)
    AddProps { span: u32, n: u8, k0: u32 },
    /// `span.add_event(Event::new(name).with_properties(..))`
    AddEvent { span: u32, e: u32, np: u8, k0: u32 },
    /// `LocalSpan::add_properties`
    LAddProps { n: u8, k0: u32 },
    /// `LocalSpan::add_event`
    LAddEvent { e: u32, np: u8, k0: u32 },
    /// `top_local_span.with_properties(..)`
    LWithProps { n: u8, k0: u32 },
    Cancel { span: u32 },
    /// take the span out of its slot and drop it on this thread
    Finish { span: u32 },
    FromSpan { span: u32 },
    CurLocal,
    Elapsed { span: u32 },
    /// `Span::root` from the context returned by op `from` (an earlier FromSpan / CurLocal on any
    /// thread), directly or through a traceparent encode/decode round trip
    RootFromCtx { l: u32, from: usize, via_text: bool },
    Sleep { us: u32 },
    /// `n` times `span.add_event(Event::new("fill"))`: cheap non-forced commands used to fill the
    /// thread's command ring; `span` becomes a filler span whose events are not checked
    Fill { span: u32, n: u32 },
    /// the logical thread's OS thread exits (a fresh one is spawned for its next operation)
    Exit,
    /// create an adapter around a scripted inner object
    /// `owned`: spans moved into the inner object (a future holding child spans across awaits);
    /// they are dropped with it, i.e. when the adapter is dropped, before the adapter's own span
    ANew { a: u32, kind: AKind, span: Option<u32>, poll_name: Option<u32>, owned: Vec<u32> },
    /// one call on adapter `a`; the scripted inner object runs `steps` and returns `outcome`
    ACall { a: u32, method: AMethod, steps: Vec<Op>, outcome: AOutcome },
    ADrop { a: u32 },
    /// `host` is an operation that takes a property closure (AddProps, LAddProps, LWithProps,
    /// Child / ChildLocal / LEnter with np > 0); its closure runs `steps` on the calling thread
    /// before returning the properties (re-entrant use of the API from user closures)
    Reent { host: Box<Op>, steps: Vec<Op> },
    /// user code that panics: `steps` run, then a panic unwinds through whatever guards and local
    /// spans the steps left open (they are dropped in reverse order while the thread is
    /// panicking) and is caught by the caller, e.g. a request handler under `catch_unwind`
    /// `drops`: spans created by the steps that live on the unwinding stack too; they are dropped
    /// (finished) by the unwinding after the guards, latest first
    Unwind { steps: Vec<Op>, drops: Vec<u32> },
    /// `set_reporter` once more with the same reporter and configuration (an application that
    /// re-initialises tracing); the library starts a fresh collector, whose background thread
    /// runs one cycle at once. Only used by templates whose oracle looks at retained state.
    SetReporter,
    /// an `Event` value (name, properties) is built now and kept by the thread; a later
    /// `AddEvent` / `LAddEvent` with the same `e` on that thread attaches this prepared value
    /// instead of building one on the spot
    PrepEvent { e: u32, np: u8, k0: u32 },
}

impl Op {
    pub fn kind_name(&self) -> &'static str {
        match self {
            Op::Root { .. } => "root",
            Op::Child { single: true, .. } => "child",
            Op::Child { .. } => "child_multi",
            Op::ChildLocal { .. } => "child_local",
            Op::Noop { .. } => "noop",
            Op::Guard { .. } => "set_local_parent",
            Op::LEnter { .. } => "local_enter",
            Op::LcStart { .. } => "lc_start",
            Op::Pop => "pop",
            Op::LcCollectOpen => "lc_collect_open",
            Op::PushSet { .. } => "push_child_spans",
            Op::ToRecords { .. } => "to_span_records",
            Op::AddProps { .. } => "add_properties",
            Op::AddEvent { .. } => "add_event",
            Op::LAddProps { .. } => "local_add_properties",
            Op::LAddEvent { .. } => "local_add_event",
            Op::LWithProps { .. } => "local_with_properties",
            Op::Cancel { .. } => "cancel",
            Op::Finish { .. } => "finish",
            Op::FromSpan { .. } => "from_span",
            Op::CurLocal => "current_local_parent",
            Op::Elapsed { .. } => "elapsed",
            Op::RootFromCtx { .. } => "root_from_ctx",
            Op::Sleep { .. } => "sleep",
            Op::Fill { .. } => "fill",
            Op::Exit => "thread_exit",
            Op::ANew { .. } => "adapter_new",
            Op::ACall { outcome: AOutcome::Panic, .. } => "adapter_call_inner_panics",
            Op::ACall { .. } => "adapter_call",
            Op::ADrop { .. } => "adapter_drop",
            Op::Reent { .. } => "reentrant_closure",
            Op::Unwind { .. } => "panic_unwinds_scopes",
            Op::SetReporter => "set_reporter_again",
            Op::PrepEvent { .. } => "event_built_ahead_of_use",
        }
    }
}

/// String decoration mode: 0 = plain ASCII tokens, 1 = tokens decorated with awkward UTF-8.
static STR_MODE: AtomicU8 = AtomicU8::new(0);

pub fn set_str_mode(m: u8) {
    STR_MODE.store(m, Ordering::SeqCst);
}

pub fn str_mode() -> u8 {
    STR_MODE.load(Ordering::SeqCst)
}

const DECOR: [&str; 12] = [
    "",
    "é",
    " 名前 ",
    "\u{0}",
    "=\"a,b;c\"\n",
    "\u{1F980}\u{200D}",
    "\t",
    "\\",
    "%s{}",
    "\u{FFFD}\u{10FFFF}",
    "-",
    "\r\n",
];

fn decor(prefix: char, id: u32, salt: u32) -> String {
    // the `_` terminator keeps the strings of different ids distinct whatever is appended
    let base = format!("{}{}_", prefix, id);
    if str_mode() == 0 {
        return base;
    }
    let h = (id.wrapping_mul(2654435761).wrapping_add(salt)) >> 7;
    let d = DECOR[(h % DECOR.len() as u32) as usize];
    match h % 5 {
        0 => base,
        1 => format!("{}{}", base, d),
        2 => format!("{}{}{}", base, d, d),
        3 => {
            // a long string now and then
            if h % 97 == 3 {
                format!("{}{}", base, "x".repeat(5000))
            } else {
                format!("{}{}", base, d)
            }
        }
        _ => format!("{}{}{}", base, d, id),
    }
}

/// name of thread-safe span `l`
pub fn sname(l: u32) -> String {
    decor('s', l, 1)
}
/// name of local span `l`
pub fn lname(l: u32) -> String {
    decor('l', l, 2)
}
/// name of the local spans recorded by `enter_on_poll` of adapter `a`
pub fn pname(a: u32) -> String {
    decor('p', a, 3)
}
pub fn ename(e: u32) -> String {
    decor('e', e, 4)
}
pub fn key(k: u32) -> String {
    decor('k', k, 5)
}
pub fn val(k: u32) -> String {
    if str_mode() != 0 && k % 11 == 0 {
        return String::new();
    }
    decor('v', k, 6)
}

/// Number of flat indices an operation occupies (see `Model::apply`).
pub fn flat_len(op: &Op) -> usize {
    match op {
        Op::ACall { steps, .. } => 2 + steps.iter().map(flat_len).sum::<usize>(),
        Op::Reent { steps, .. } => 2 + steps.iter().map(flat_len).sum::<usize>(),
        Op::Unwind { steps, .. } => 2 + steps.iter().map(flat_len).sum::<usize>(),
        _ => 1,
    }
}
