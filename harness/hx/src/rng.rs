//! Small deterministic PRNG (xoshiro256**, seeded through splitmix64) and choice helpers.

#[derive(Clone, Debug)]
pub struct Rng {
    s: [u64; 4],
}

fn splitmix(x: &mut u64) -> u64 {
    *x = x.wrapping_add(0x9E37_79B9_7F4A_7C15);
    let mut z = *x;
    z = (z ^ (z >> 30)).wrapping_mul(0xBF58_476D_1CE4_E5B9);
    z = (z ^ (z >> 27)).wrapping_mul(0x94D0_49BB_1331_11EB);
    z ^ (z >> 31)
}

impl Rng {
    pub fn new(seed: u64) -> Rng {
        let mut x = seed ^ 0x5EED_5EED_5EED_5EED;
        let s = [
            splitmix(&mut x),
            splitmix(&mut x),
            splitmix(&mut x),
            splitmix(&mut x),
        ];
        Rng { s }
    }

    /// Derive an independent stream.
    pub fn fork(&mut self, salt: u64) -> Rng {
        Rng::new(self.next() ^ salt.wrapping_mul(0xA24B_AED4_963E_E407))
    }

    #[allow(clippy::should_implement_trait)]
    pub fn next(&mut self) -> u64 {
        let r = self.s[1].wrapping_mul(5).rotate_left(7).wrapping_mul(9);
        let t = self.s[1] << 17;
        self.s[2] ^= self.s[0];
        self.s[3] ^= self.s[1];
        self.s[1] ^= self.s[2];
        self.s[0] ^= self.s[3];
        self.s[2] ^= t;
        self.s[3] = self.s[3].rotate_left(45);
        r
    }

    pub fn below(&mut self, n: usize) -> usize {
        if n <= 1 {
            0
        } else {
            (self.next() % n as u64) as usize
        }
    }

    pub fn range(&mut self, lo: usize, hi_incl: usize) -> usize {
        lo + self.below(hi_incl - lo + 1)
    }

    /// true with probability num/den
    pub fn chance(&mut self, num: u32, den: u32) -> bool {
        (self.next() % den as u64) < num as u64
    }

    pub fn pick<'a, T>(&mut self, v: &'a [T]) -> &'a T {
        &v[self.below(v.len())]
    }

    pub fn u128(&mut self) -> u128 {
        ((self.next() as u128) << 64) | self.next() as u128
    }

    pub fn weighted(&mut self, w: &[u32]) -> usize {
        let tot: u64 = w.iter().map(|x| *x as u64).sum();
        if tot == 0 {
            return 0;
        }
        let mut r = self.next() % tot;
        for (i, x) in w.iter().enumerate() {
            if r < *x as u64 {
                return i;
            }
            r -= *x as u64;
        }
        w.len() - 1
    }

    pub fn shuffle<T>(&mut self, v: &mut [T]) {
        for i in (1..v.len()).rev() {
            let j = self.below(i + 1);
            v.swap(i, j);
        }
    }
}

pub fn fnv(bytes: &[u8]) -> u64 {
    let mut h: u64 = 0xcbf2_9ce4_8422_2325;
    for b in bytes {
        h ^= *b as u64;
        h = h.wrapping_mul(0x1000_0000_01b3);
    }
    h
}
