//! C19 / C20: the bundled reporters against independent decoders.  Random `SpanRecord` batches are
//! handed to the real reporters; what arrives on a loopback UDP socket (Jaeger), a loopback
//! HTTP/1.1 listener (Datadog) or a capturing `SpanExporter` (OpenTelemetry) is decoded by decoders
//! written for this harness and compared field by field with the expected mapping.

use std::borrow::Cow;
use std::collections::{BTreeMap, HashMap};
use std::io::{Read, Write};
use std::net::{SocketAddr, TcpListener, UdpSocket};
use std::sync::atomic::{AtomicBool, Ordering};
use std::sync::{Arc, Mutex};
use std::time::{Duration, Instant, SystemTime, UNIX_EPOCH};

use fastrace::collector::{EventRecord, Reporter, SpanId, SpanRecord, TraceId};
use serde_json::json;

// ------------------------------------------------------------------------------------------------
// rng

struct Rng(u64);
impl Rng {
    fn next(&mut self) -> u64 {
        self.0 = self.0.wrapping_add(0x9E37_79B9_7F4A_7C15);
        let mut z = self.0;
        z = (z ^ (z >> 30)).wrapping_mul(0xBF58_476D_1CE4_E5B9);
        z = (z ^ (z >> 27)).wrapping_mul(0x94D0_49BB_1331_11EB);
        z ^ (z >> 31)
    }
    fn below(&mut self, n: usize) -> usize {
        if n == 0 {
            0
        } else {
            (self.next() % n as u64) as usize
        }
    }
    fn chance(&mut self, a: u64, b: u64) -> bool {
        self.next() % b < a
    }
}

const PIECES: [&str; 10] = ["", "a", "é", "名前", "\u{0}", "\u{1F980}", "=,;\"\n", " ", "%s", "\u{10FFFF}"];

fn rand_str(r: &mut Rng, max: usize) -> String {
    match r.below(12) {
        0 => String::new(),
        1 => "x".repeat(r.below(max.max(1))),
        _ => {
            let n = r.below(6);
            let mut s = String::new();
            for _ in 0..n {
                s.push_str(PIECES[r.below(PIECES.len())]);
                s.push_str(&format!("{}", r.below(1000)));
            }
            s
        }
    }
}

fn rand_u64(r: &mut Rng) -> u64 {
    match r.below(8) {
        0 => 0,
        1 => 1,
        2 => u64::MAX,
        3 => 1 << 63,
        4 => (1 << 63) - 1,
        5 => r.next() >> r.below(64),
        _ => r.next(),
    }
}

fn rand_u128(r: &mut Rng) -> u128 {
    match r.below(8) {
        0 => 0,
        1 => u128::MAX,
        2 => 1 << 127,
        3 => (rand_u64(r) as u128) << 64,
        4 => rand_u64(r) as u128,
        _ => ((r.next() as u128) << 64) | r.next() as u128,
    }
}

fn rand_props(r: &mut Rng, max: usize) -> Vec<(Cow<'static, str>, Cow<'static, str>)> {
    let n = r.below(max + 1);
    let mut v: Vec<(Cow<'static, str>, Cow<'static, str>)> = vec![];
    for _ in 0..n {
        // keys and values that mean something to tracing back ends (semantic conventions, reserved
        // tags): for the reporters they are properties like any other
        if r.chance(1, 10) {
            const KEYS: [&str; 22] = ["span.kind", "error", "otel.status_code", "otel.status_description", "service.name", "resource.name", "span.type", "sampling.priority", "_dd.p.dm", "_sampling_priority_v1", "name", "type", "service", "resource", "http.method", "http.status_code", "component", "peer.service", "event", "level", "message", "exception.type"];
            const VALS: [&str; 14] = ["client", "server", "producer", "consumer", "internal", "batch-job", "true", "false", "ERROR", "OK", "1", "-1", "", "web"];
            v.push((KEYS[r.below(KEYS.len())].into(), VALS[r.below(VALS.len())].into()));
            continue;
        }
        let k = if !v.is_empty() && r.chance(1, 6) { v[r.below(v.len())].0.to_string() } else { rand_str(r, 40) };
        v.push((k.into(), rand_str(r, 300).into()));
    }
    v
}

fn now_ns() -> u64 {
    SystemTime::now().duration_since(UNIX_EPOCH).unwrap().as_nanos() as u64
}

fn rand_record(r: &mut Rng, big: bool) -> SpanRecord {
    // times stay inside the stated input space (begin + duration does not overflow)
    let begin = match r.below(6) {
        0 => 0,
        1 => 999,
        2 => r.next() % (1 << 62),
        _ => now_ns().wrapping_sub(r.next() % 1_000_000_000),
    };
    let dur = match r.below(5) {
        0 => 0,
        1 => 999,
        2 => r.next() % (1 << 61),
        _ => r.next() % 10_000_000_000,
    };
    let nev = if r.chance(1, 2) { 0 } else { r.below(if big { 21 } else { 4 }) };
    SpanRecord {
        trace_id: TraceId(rand_u128(r)),
        span_id: SpanId(rand_u64(r)),
        parent_id: SpanId(rand_u64(r)),
        begin_time_unix_ns: begin,
        duration_ns: dur,
        name: rand_str(r, if big { 2000 } else { 60 }).into(),
        properties: rand_props(r, if big { 12 } else { 3 }),
        events: (0..nev)
            .map(|_| EventRecord { name: rand_str(r, 40).into(), timestamp_unix_ns: r.next() % (1 << 62), properties: rand_props(r, 3) })
            .collect(),
    }
}

/// The copies of a multi-parent span (and of pushed local spans) are separate records with the same
/// span id and different trace / parent ids: now and then a batch contains such groups.
fn share_span_ids(r: &mut Rng, batch: &mut [SpanRecord]) -> bool {
    if batch.len() < 2 || !r.chance(1, 4) {
        return false;
    }
    let groups = 1 + r.below(3);
    for _ in 0..groups {
        let src = r.below(batch.len());
        let id = batch[src].span_id;
        for _ in 0..(1 + r.below(3)) {
            let dst = r.below(batch.len());
            batch[dst].span_id = id;
        }
    }
    true
}

/// Now and then one record of a batch gets far more events and/or properties than any default
/// limit of the target SDKs (128 events / attributes per span in OpenTelemetry): the property
/// states that all of them are transmitted.
fn swell(r: &mut Rng, batch: &mut [SpanRecord], max_events: usize, max_props: usize) -> bool {
    if batch.is_empty() || !r.chance(1, 5) {
        return false;
    }
    let i = r.below(batch.len());
    let which = r.below(3);
    if which != 1 {
        let n = 129 + r.below(max_events.saturating_sub(129).max(1));
        batch[i].events = (0..n)
            .map(|k| EventRecord {
                name: format!("e{}-{}", k, rand_str(r, 6)).into(),
                timestamp_unix_ns: r.next() % (1 << 62),
                properties: if r.chance(1, 8) { rand_props(r, 1) } else { vec![] },
            })
            .collect();
    }
    if which != 0 {
        let n = 129 + r.below(max_props.saturating_sub(129).max(1));
        batch[i].properties = (0..n).map(|k| (format!("k{}-{}", k, rand_str(r, 8)).into(), rand_str(r, 20).into())).collect();
    }
    true
}

// ------------------------------------------------------------------------------------------------
// independent Thrift compact protocol decoder

#[derive(Debug, Clone, PartialEq)]
enum TV {
    Bool(bool),
    I8(i8),
    I16(i16),
    I32(i32),
    I64(i64),
    Double([u8; 8]),
    Bin(Vec<u8>),
    List(Vec<TV>),
    Struct(Vec<(i16, TV)>),
}

struct Cur<'a> {
    b: &'a [u8],
    i: usize,
}

impl<'a> Cur<'a> {
    fn u8(&mut self) -> Result<u8, String> {
        let v = *self.b.get(self.i).ok_or("unexpected end of data")?;
        self.i += 1;
        Ok(v)
    }
    fn take(&mut self, n: usize) -> Result<&'a [u8], String> {
        if self.i + n > self.b.len() {
            return Err("unexpected end of data".into());
        }
        let s = &self.b[self.i..self.i + n];
        self.i += n;
        Ok(s)
    }
    fn varint(&mut self) -> Result<u64, String> {
        let mut v = 0u64;
        let mut shift = 0;
        loop {
            let b = self.u8()?;
            v |= ((b & 0x7f) as u64) << shift;
            if b & 0x80 == 0 {
                return Ok(v);
            }
            shift += 7;
            if shift > 63 {
                return Err("varint too long".into());
            }
        }
    }
    fn zigzag(&mut self) -> Result<i64, String> {
        let v = self.varint()?;
        Ok(((v >> 1) as i64) ^ -((v & 1) as i64))
    }
}

fn t_value(c: &mut Cur, ty: u8) -> Result<TV, String> {
    Ok(match ty {
        1 => TV::Bool(true),
        2 => TV::Bool(false),
        3 => TV::I8(c.u8()? as i8),
        4 => TV::I16(c.zigzag()? as i16),
        5 => TV::I32(c.zigzag()? as i32),
        6 => TV::I64(c.zigzag()?),
        7 => {
            let mut a = [0u8; 8];
            a.copy_from_slice(c.take(8)?);
            TV::Double(a)
        }
        8 => {
            let n = c.varint()? as usize;
            TV::Bin(c.take(n)?.to_vec())
        }
        9 | 10 => {
            let h = c.u8()?;
            let et = h & 0x0f;
            let mut n = (h >> 4) as usize;
            if n == 15 {
                n = c.varint()? as usize;
            }
            let mut v = Vec::with_capacity(n.min(100_000));
            for _ in 0..n {
                if et == 1 || et == 2 {
                    v.push(TV::Bool(c.u8()? == 1));
                } else {
                    v.push(t_value(c, et)?);
                }
            }
            TV::List(v)
        }
        12 => t_struct(c)?,
        other => return Err(format!("unsupported thrift type {}", other)),
    })
}

fn t_struct(c: &mut Cur) -> Result<TV, String> {
    let mut fields = vec![];
    let mut last: i16 = 0;
    loop {
        let h = c.u8()?;
        if h == 0 {
            return Ok(TV::Struct(fields));
        }
        let ty = h & 0x0f;
        let delta = (h >> 4) as i16;
        let id = if delta == 0 { c.zigzag()? as i16 } else { last + delta };
        last = id;
        fields.push((id, t_value(c, ty)?));
    }
}

struct TMessage {
    name: String,
    mtype: u8,
    seq: u64,
    body: TV,
}

fn t_message(b: &[u8]) -> Result<TMessage, String> {
    let mut c = Cur { b, i: 0 };
    if c.u8()? != 0x82 {
        return Err("not a compact-protocol message (protocol id)".into());
    }
    let vt = c.u8()?;
    if vt & 0x1f != 1 {
        return Err(format!("compact protocol version {}", vt & 0x1f));
    }
    let mtype = vt >> 5;
    let seq = c.varint()?;
    let n = c.varint()? as usize;
    let name = String::from_utf8(c.take(n)?.to_vec()).map_err(|_| "message name is not UTF-8")?;
    let body = t_struct(&mut c)?;
    if c.i != b.len() {
        return Err(format!("{} bytes of trailing garbage", b.len() - c.i));
    }
    Ok(TMessage { name, mtype, seq, body })
}

fn field<'a>(s: &'a TV, id: i16) -> Option<&'a TV> {
    match s {
        TV::Struct(f) => f.iter().find(|(i, _)| *i == id).map(|(_, v)| v),
        _ => None,
    }
}

fn as_str(v: Option<&TV>) -> Result<String, String> {
    match v {
        Some(TV::Bin(b)) => String::from_utf8(b.clone()).map_err(|_| "string field is not UTF-8".to_string()),
        other => Err(format!("expected a string field, found {:?}", other.map(|_| "other type"))),
    }
}

fn as_i64(v: Option<&TV>) -> Result<i64, String> {
    match v {
        Some(TV::I64(x)) => Ok(*x),
        _ => Err("expected an i64 field".into()),
    }
}

#[derive(Debug, Clone, PartialEq)]
struct JSpan {
    trace_low: i64,
    trace_high: i64,
    span_id: i64,
    parent: i64,
    name: String,
    flags: i32,
    start: i64,
    duration: i64,
    tags: Vec<(String, String)>,
    logs: Vec<(i64, Vec<(String, String)>)>,
}

fn j_tags(v: Option<&TV>) -> Result<Vec<(String, String)>, String> {
    match v {
        None => Ok(vec![]),
        Some(TV::List(l)) => l
            .iter()
            .map(|t| {
                match field(t, 2) {
                    Some(TV::I32(0)) => {}
                    _ => return Err("tag is not of string type".to_string()),
                }
                Ok((as_str(field(t, 1))?, as_str(field(t, 3))?))
            })
            .collect(),
        _ => Err("tags is not a list".into()),
    }
}

fn j_decode(b: &[u8], service: &str) -> Result<Vec<JSpan>, String> {
    let m = t_message(b)?;
    if m.name != "emitBatch" || m.mtype != 4 || m.seq != 0 {
        return Err(format!("message header: name {:?} type {} seq {}", m.name, m.mtype, m.seq));
    }
    let batch = field(&m.body, 1).ok_or("no batch argument")?;
    let process = field(batch, 1).ok_or("no process")?;
    if as_str(field(process, 1))? != service {
        return Err("wrong service name".into());
    }
    let spans = match field(batch, 2) {
        Some(TV::List(l)) => l,
        _ => return Err("no span list".into()),
    };
    spans
        .iter()
        .map(|s| {
            let logs = match field(s, 11) {
                None => vec![],
                Some(TV::List(l)) => l.iter().map(|lg| Ok((as_i64(field(lg, 1))?, j_tags(field(lg, 2))?))).collect::<Result<Vec<_>, String>>()?,
                _ => return Err("logs is not a list".to_string()),
            };
            if field(s, 6).is_some() {
                return Err("unexpected references".to_string());
            }
            Ok(JSpan {
                trace_low: as_i64(field(s, 1))?,
                trace_high: as_i64(field(s, 2))?,
                span_id: as_i64(field(s, 3))?,
                parent: as_i64(field(s, 4))?,
                name: as_str(field(s, 5))?,
                flags: match field(s, 7) {
                    Some(TV::I32(x)) => *x,
                    _ => return Err("flags missing".to_string()),
                },
                start: as_i64(field(s, 8))?,
                duration: as_i64(field(s, 9))?,
                tags: j_tags(field(s, 10))?,
                logs,
            })
        })
        .collect()
}

fn j_expected(r: &SpanRecord) -> JSpan {
    JSpan {
        trace_low: r.trace_id.0 as u64 as i64,
        trace_high: (r.trace_id.0 >> 64) as u64 as i64,
        span_id: r.span_id.0 as i64,
        parent: r.parent_id.0 as i64,
        name: r.name.to_string(),
        flags: 1,
        start: (r.begin_time_unix_ns / 1000) as i64,
        duration: (r.duration_ns / 1000) as i64,
        tags: r.properties.iter().map(|(k, v)| (k.to_string(), v.to_string())).collect(),
        logs: r
            .events
            .iter()
            .map(|e| {
                let mut f = vec![("name".to_string(), e.name.to_string())];
                f.extend(e.properties.iter().map(|(k, v)| (k.to_string(), v.to_string())));
                ((e.timestamp_unix_ns / 1000) as i64, f)
            })
            .collect(),
    }
}

// independent encoder, used only to know the size of the datagram a batch needs

fn e_varint(out: &mut Vec<u8>, mut v: u64) {
    loop {
        let b = (v & 0x7f) as u8;
        v >>= 7;
        if v == 0 {
            out.push(b);
            return;
        }
        out.push(b | 0x80);
    }
}
fn e_zz(out: &mut Vec<u8>, v: i64) {
    e_varint(out, ((v << 1) ^ (v >> 63)) as u64);
}
fn e_str(out: &mut Vec<u8>, s: &str) {
    e_varint(out, s.len() as u64);
    out.extend_from_slice(s.as_bytes());
}
fn e_list_header(out: &mut Vec<u8>, n: usize, ty: u8) {
    if n < 15 {
        out.push(((n as u8) << 4) | ty);
    } else {
        out.push(0xf0 | ty);
        e_varint(out, n as u64);
    }
}
fn e_tag(out: &mut Vec<u8>, k: &str, v: &str) {
    out.push(0x18);
    e_str(out, k);
    out.push(0x15);
    e_zz(out, 0);
    out.push(0x18);
    e_str(out, v);
    out.push(0);
}
fn e_span(out: &mut Vec<u8>, s: &JSpan) {
    out.push(0x16);
    e_zz(out, s.trace_low);
    out.push(0x16);
    e_zz(out, s.trace_high);
    out.push(0x16);
    e_zz(out, s.span_id);
    out.push(0x16);
    e_zz(out, s.parent);
    out.push(0x18);
    e_str(out, &s.name);
    out.push(0x25); // field 7 (delta 2), i32
    e_zz(out, s.flags as i64);
    out.push(0x16);
    e_zz(out, s.start);
    out.push(0x16);
    e_zz(out, s.duration);
    let mut last = 9;
    if !s.tags.is_empty() {
        out.push(0x19);
        last = 10;
        e_list_header(out, s.tags.len(), 12);
        for (k, v) in &s.tags {
            e_tag(out, k, v);
        }
    }
    if !s.logs.is_empty() {
        out.push((((11 - last) as u8) << 4) | 9);
        e_list_header(out, s.logs.len(), 12);
        for (ts, f) in &s.logs {
            out.push(0x16);
            e_zz(out, *ts);
            out.push(0x19);
            e_list_header(out, f.len(), 12);
            for (k, v) in f {
                e_tag(out, k, v);
            }
            out.push(0);
        }
    }
    out.push(0);
}
fn e_batch(service: &str, spans: &[JSpan]) -> Vec<u8> {
    let mut out = vec![0x82, (4 << 5) | 1];
    e_varint(&mut out, 0);
    e_str(&mut out, "emitBatch");
    out.push(0x1c); // field 1: struct Batch
    out.push(0x1c); // field 1: struct Process
    out.push(0x18);
    e_str(&mut out, service);
    out.push(0);
    out.push(0x19); // field 2: list<Span>
    e_list_header(&mut out, spans.len(), 12);
    for s in spans {
        e_span(&mut out, s);
    }
    out.push(0); // Batch
    out.push(0); // args
    out
}

// ------------------------------------------------------------------------------------------------
// independent msgpack decoder

#[derive(Debug, Clone, PartialEq)]
enum MV {
    Nil,
    Bool(bool),
    Int(i128),
    Str(String),
    Arr(Vec<MV>),
    Map(Vec<(MV, MV)>),
}

fn m_value(c: &mut Cur) -> Result<MV, String> {
    let t = c.u8()?;
    let be = |c: &mut Cur, n: usize| -> Result<u64, String> {
        let s = c.take(n)?;
        Ok(s.iter().fold(0u64, |a, b| (a << 8) | *b as u64))
    };
    Ok(match t {
        0x00..=0x7f => MV::Int(t as i128),
        0x80..=0x8f => m_map(c, (t & 0x0f) as usize)?,
        0x90..=0x9f => m_arr(c, (t & 0x0f) as usize)?,
        0xa0..=0xbf => m_str(c, (t & 0x1f) as usize)?,
        0xc0 => MV::Nil,
        0xc2 => MV::Bool(false),
        0xc3 => MV::Bool(true),
        0xcc => MV::Int(be(c, 1)? as i128),
        0xcd => MV::Int(be(c, 2)? as i128),
        0xce => MV::Int(be(c, 4)? as i128),
        0xcf => MV::Int(be(c, 8)? as i128),
        0xd0 => MV::Int(be(c, 1)? as u8 as i8 as i128),
        0xd1 => MV::Int(be(c, 2)? as u16 as i16 as i128),
        0xd2 => MV::Int(be(c, 4)? as u32 as i32 as i128),
        0xd3 => MV::Int(be(c, 8)? as i64 as i128),
        0xd9 => {
            let n = be(c, 1)? as usize;
            m_str(c, n)?
        }
        0xda => {
            let n = be(c, 2)? as usize;
            m_str(c, n)?
        }
        0xdb => {
            let n = be(c, 4)? as usize;
            m_str(c, n)?
        }
        0xdc => {
            let n = be(c, 2)? as usize;
            m_arr(c, n)?
        }
        0xdd => {
            let n = be(c, 4)? as usize;
            m_arr(c, n)?
        }
        0xde => {
            let n = be(c, 2)? as usize;
            m_map(c, n)?
        }
        0xdf => {
            let n = be(c, 4)? as usize;
            m_map(c, n)?
        }
        0xe0..=0xff => MV::Int(t as i8 as i128),
        other => return Err(format!("unsupported msgpack type byte {:#x}", other)),
    })
}
fn m_str(c: &mut Cur, n: usize) -> Result<MV, String> {
    Ok(MV::Str(String::from_utf8(c.take(n)?.to_vec()).map_err(|_| "msgpack str is not UTF-8")?))
}
fn m_arr(c: &mut Cur, n: usize) -> Result<MV, String> {
    let mut v = Vec::with_capacity(n.min(100_000));
    for _ in 0..n {
        v.push(m_value(c)?);
    }
    Ok(MV::Arr(v))
}
fn m_map(c: &mut Cur, n: usize) -> Result<MV, String> {
    let mut v = Vec::with_capacity(n.min(100_000));
    for _ in 0..n {
        let k = m_value(c)?;
        v.push((k, m_value(c)?));
    }
    Ok(MV::Map(v))
}

// ------------------------------------------------------------------------------------------------

struct St {
    evals: usize,
    records: usize,
    distinct: usize,
    violations: Vec<serde_json::Value>,
    inconclusive: Vec<String>,
    samples: Vec<serde_json::Value>,
    stats: BTreeMap<String, u64>,
}

impl St {
    fn viol(&mut self, sig: &str, detail: String) {
        if self.violations.len() < 20 {
            self.violations.push(json!({"category": "Wire", "signature": sig, "detail": detail}));
        }
    }
    fn stat(&mut self, k: &str, n: u64) {
        *self.stats.entry(k.to_string()).or_insert(0) += n;
    }
}

fn short(r: &SpanRecord) -> String {
    let s = format!("{:?}", r);
    if s.len() > 400 {
        format!("{}…({}B)", s.chars().take(300).collect::<String>(), s.len())
    } else {
        s
    }
}

/// UDP sink with a draining thread
struct UdpSink {
    addr: SocketAddr,
    got: Arc<Mutex<Vec<Vec<u8>>>>,
    stop: Arc<AtomicBool>,
}

impl UdpSink {
    fn new() -> UdpSink {
        UdpSink::new_on("127.0.0.1:0").expect("loopback UDP socket")
    }
    fn new_on(bind: &str) -> Option<UdpSink> {
        let sock = UdpSocket::bind(bind).ok()?;
        // a large receive buffer: a whole batch fits even if the draining thread is descheduled
        let _ = socket2::SockRef::from(&sock).set_recv_buffer_size(4 << 20);
        let addr = sock.local_addr().unwrap();
        sock.set_read_timeout(Some(Duration::from_millis(20))).unwrap();
        let got = Arc::new(Mutex::new(Vec::new()));
        let stop = Arc::new(AtomicBool::new(false));
        let (g, s) = (got.clone(), stop.clone());
        std::thread::spawn(move || {
            let mut buf = vec![0u8; 70_000];
            while !s.load(Ordering::SeqCst) {
                if let Ok((n, _)) = sock.recv_from(&mut buf) {
                    g.lock().unwrap().push(buf[..n].to_vec());
                }
            }
        });
        Some(UdpSink { addr, got, stop })
    }
    /// Everything the reporter has sent so far. On loopback a datagram is queued at the receiving
    /// socket before `send` returns, so all of them are in the socket buffer already; the harness
    /// sends a marker of its own behind them and takes what was read before the marker. No
    /// quiet-period guessing: a descheduled reader only makes this slower.
    fn drain(&self) -> Vec<Vec<u8>> {
        static MARK: std::sync::atomic::AtomicU64 = std::sync::atomic::AtomicU64::new(1);
        let id = MARK.fetch_add(1, Ordering::SeqCst);
        let marker = format!("\u{0}hx-drain-marker-{}", id).into_bytes();
        let bind = if self.addr.ip().is_loopback() {
            if self.addr.is_ipv6() { "[::1]:0" } else { "127.0.0.1:0" }
        } else if self.addr.is_ipv6() {
            "[::]:0"
        } else {
            "0.0.0.0:0"
        };
        let sent = UdpSocket::bind(bind).and_then(|s| s.send_to(&marker, self.addr)).is_ok();
        let t = Instant::now();
        loop {
            {
                let mut g = self.got.lock().unwrap();
                if let Some(p) = g.iter().position(|d| *d == marker) {
                    let mut head: Vec<Vec<u8>> = g.drain(..=p).collect();
                    head.pop();
                    return head;
                }
            }
            // the marker itself may be dropped when the buffer is full: send another one now and
            // then; give up after a generous while and return what is there
            if !sent || t.elapsed() > Duration::from_secs(10) {
                std::thread::sleep(Duration::from_millis(100));
                return std::mem::take(&mut *self.got.lock().unwrap());
            }
            if t.elapsed().as_millis() % 500 > 490 {
                let _ = UdpSocket::bind(bind).and_then(|s| s.send_to(&marker, self.addr));
            }
            std::thread::sleep(Duration::from_millis(1));
        }
    }
}

impl UdpSink {
    /// does a datagram addressed to this sink's own address arrive at it?
    fn drain_probe(&self) -> bool {
        let bind = if self.addr.is_ipv6() { "[::]:0" } else { "0.0.0.0:0" };
        let probe = b"\0hx-probe".to_vec();
        if UdpSocket::bind(bind).and_then(|s| s.send_to(&probe, self.addr)).is_err() {
            return false;
        }
        let t = Instant::now();
        while t.elapsed() < Duration::from_millis(500) {
            let mut g = self.got.lock().unwrap();
            if let Some(p) = g.iter().position(|d| *d == probe) {
                g.remove(p);
                return true;
            }
            drop(g);
            std::thread::sleep(Duration::from_millis(2));
        }
        false
    }
}

impl Drop for UdpSink {
    fn drop(&mut self) {
        self.stop.store(true, Ordering::SeqCst);
    }
}

const SERVICE: &str = "svc-é";

/// A receiving socket and the reporter that sends to it. The reporter is kept across batches (as an
/// application keeps it), so state it carries from one report() call to the next is exercised.
struct JaegerEnd {
    sink: UdpSink,
    rep: fastrace_jaeger::JaegerReporter,
}

/// IPv4 loopback always, IPv6 loopback when the machine has it; batches alternate between them
struct JaegerEnds {
    v4: JaegerEnd,
    v6: Option<JaegerEnd>,
    /// the IPv4 agent addressed in IPv4-mapped IPv6 form, [::ffff:127.0.0.1]:port
    mapped: Option<JaegerEnd>,
    /// agents whose address is not a loopback address although they are on this machine: the
    /// unspecified addresses (0.0.0.0, [::]) and the addresses of the machine's other interfaces
    others: Vec<JaegerEnd>,
    n: usize,
    n6: usize,
    nm: usize,
    no: usize,
}

/// the local address the machine would use towards `probe` (nothing is sent)
fn outbound_addr(bind: &str, probe: &str) -> Option<std::net::IpAddr> {
    let s = UdpSocket::bind(bind).ok()?;
    s.connect(probe).ok()?;
    let ip = s.local_addr().ok()?.ip();
    if ip.is_loopback() || ip.is_unspecified() {
        None
    } else {
        Some(ip)
    }
}

impl JaegerEnds {
    fn new(st: &mut St) -> JaegerEnds {
        let mk = |sink: UdpSink| {
            let rep = fastrace_jaeger::JaegerReporter::new(sink.addr, SERVICE).unwrap();
            JaegerEnd { sink, rep }
        };
        let v6 = UdpSink::new_on("[::1]:0").map(mk);
        if v6.is_none() {
            st.stat("ipv6_loopback_unavailable", 1);
        }
        let mapped = if v6.is_some() {
            UdpSink::new_on("127.0.0.1:0").and_then(|sink| {
                let addr: SocketAddr = format!("[::ffff:127.0.0.1]:{}", sink.addr.port()).parse().ok()?;
                let rep = fastrace_jaeger::JaegerReporter::new(addr, SERVICE).ok()?;
                Some(JaegerEnd { sink, rep })
            })
        } else {
            None
        };
        let mut others = vec![];
        let mut binds = vec!["0.0.0.0:0".to_string()];
        if v6.is_some() {
            binds.push("[::]:0".to_string());
        }
        if let Some(ip) = outbound_addr("0.0.0.0:0", "192.0.2.1:9") {
            binds.push(format!("{}:0", ip));
        }
        if let Some(ip) = outbound_addr("[::]:0", "[2001:db8::1]:9") {
            binds.push(format!("[{}]:0", ip));
        }
        for b in &binds {
            if let Some(sink) = UdpSink::new_on(b) {
                // usable only if a datagram sent to that address really arrives here
                let probe = sink.drain_probe();
                if probe {
                    if let Ok(rep) = fastrace_jaeger::JaegerReporter::new(sink.addr, SERVICE) {
                        others.push(JaegerEnd { sink, rep });
                        continue;
                    }
                }
            }
            st.stat("non_loopback_agent_address_unusable", 1);
        }
        st.stat("non_loopback_agent_addresses", others.len() as u64);
        JaegerEnds { v4: mk(UdpSink::new()), v6, mapped, others, n: 0, n6: 0, nm: 0, no: 0 }
    }
    fn pick(&mut self) -> &mut JaegerEnd {
        self.n += 1;
        if self.n % 5 == 2 && !self.others.is_empty() {
            self.no += 1;
            let k = (self.n / 5) % self.others.len();
            return &mut self.others[k];
        }
        if self.n % 3 == 0 {
            if let Some(e) = self.v6.as_mut() {
                self.n6 += 1;
                return e;
            }
        }
        if self.n % 7 == 1 {
            if let Some(e) = self.mapped.as_mut() {
                self.nm += 1;
                return e;
            }
        }
        &mut self.v4
    }
}

/// The agent is away while a first batch is sent (its datagram goes nowhere, and on a connected
/// socket the ICMP answer would be remembered), then it is back: the next batch must arrive.
fn jaeger_agent_restart(st: &mut St, r: &mut Rng) {
    // no re-sending here (a transient failure of the first report() after the outage is exactly
    // what is looked for); instead the whole scenario runs several times and only "nothing at all
    // arrived, every time" counts
    // per number of batches sent during the outage: (rounds, rounds in which nothing arrived)
    let mut by_kind = [(0usize, 0usize); 2];
    for round in 0..6 {
        let tmp = match UdpSocket::bind("127.0.0.1:0") {
            Ok(s) => s,
            Err(_) => return,
        };
        let addr = tmp.local_addr().unwrap();
        drop(tmp);
        let mut rep = fastrace_jaeger::JaegerReporter::new(addr, SERVICE).unwrap();
        for _ in 0..(1 + round % 2) {
            rep.report(vec![rand_record(r, false)]);
            std::thread::sleep(Duration::from_millis(15));
        }
        let sink = match UdpSink::new_on(&addr.to_string()) {
            Some(s) => s,
            None => {
                st.stat("agent_restart_port_taken", 1);
                continue;
            }
        };
        let batch: Vec<SpanRecord> = (0..(2 + r.below(6))).map(|_| rand_record(r, false)).collect();
        rep.report(batch.clone());
        let grams = sink.drain();
        by_kind[round % 2].0 += 1;
        st.evals += 1;
        st.stat("agent_restart_rounds", 1);
        if grams.is_empty() {
            by_kind[round % 2].1 += 1;
            continue;
        }
        // what arrived is checked like any other batch would be (on a fresh pass through the
        // same reporter, which must also still work)
        let mut end = JaegerEnd { sink, rep };
        jaeger_batch(st, &mut end, batch, true, &format!("batch after the agent came back (round {})", round));
    }
    for (k, (rounds, nothing)) in by_kind.iter().enumerate() {
        if *rounds >= 2 && nothing == rounds {
            st.viol("batch-lost-after-agent-outage", format!("in {} of {} rounds the first batch reported after the agent came back (it was away while {} earlier batch(es) were sent) did not produce a single datagram", nothing, rounds, 1 + k));
        } else if *nothing > 0 {
            st.inconclusive.push(format!("agent restart ({} batch(es) during the outage): nothing arrived in {} of {} rounds", 1 + k, nothing, rounds));
        }
    }
}

/// Runs one batch; when spans are missing in a way that datagram loss on loopback could explain
/// (what arrived is an in-order subsequence of what was expected), the batch is sent again: a
/// reporter that skips spans does so every time, loss does not.
fn jaeger_batch(st: &mut St, end: &mut JaegerEnd, batch: Vec<SpanRecord>, split_rules: bool, label: &str) {
    let mut missing_every_time: Option<Vec<usize>> = None;
    for attempt in 0..4 {
        match jaeger_once(st, end, batch.clone(), split_rules, label) {
            None => return,
            Some(missing) => {
                st.stat("retries_after_incomplete_arrival", 1);
                missing_every_time = Some(match missing_every_time {
                    None => missing,
                    Some(prev) => prev.into_iter().filter(|i| missing.contains(i)).collect(),
                });
                if attempt == 3 {
                    break;
                }
            }
        }
    }
    let m = missing_every_time.unwrap_or_default();
    if m.is_empty() {
        st.inconclusive.push(format!("{}: spans were missing on every attempt, but different ones each time (datagram loss on loopback)", label));
    } else {
        st.viol("span-count", format!("{}: the spans at batch positions {:?}… fit into a datagram but were missing in 4 of 4 attempts", label, &m[..m.len().min(8)]));
    }
}

/// Returns None when the batch was decided (held or violation recorded), Some(missing positions
/// among the expected spans) when an in-order subsequence arrived.
fn jaeger_once(st: &mut St, end: &mut JaegerEnd, batch: Vec<SpanRecord>, split_rules: bool, label: &str) -> Option<Vec<usize>> {
    let JaegerEnd { sink, rep } = end;
    let expected: Vec<JSpan> = batch.iter().map(j_expected).collect();
    // spans whose own encoding does not fit a datagram are the only permitted omissions
    let fits: Vec<bool> = expected.iter().map(|s| e_batch(SERVICE, std::slice::from_ref(s)).len() < 8000).collect();
    let want: Vec<&JSpan> = expected.iter().zip(&fits).filter(|(_, f)| **f).map(|(s, _)| s).collect();
    let t = Instant::now();
    if let Err(e) = std::panic::catch_unwind(std::panic::AssertUnwindSafe(|| rep.report(batch.clone()))) {
        let msg = e.downcast_ref::<String>().cloned().or_else(|| e.downcast_ref::<&str>().map(|s| s.to_string())).unwrap_or_default();
        st.viol("report-panicked", format!("{}: report() of {} records panicked: {}", label, batch.len(), msg));
        st.evals += 1;
        return None;
    }
    let took = t.elapsed();
    if took > Duration::from_secs(20) {
        st.viol("report-too-slow", format!("{}: report() of {} records took {:?}", label, batch.len(), took));
    }
    let grams = sink.drain();
    st.evals += 1;
    st.records += batch.len();
    st.stat("datagrams", grams.len() as u64);
    st.stat("oversize_spans_skipped", fits.iter().filter(|f| !**f).count() as u64);
    let mut got: Vec<JSpan> = vec![];
    let mut max = 0;
    for g in &grams {
        max = max.max(g.len());
        if g.len() >= 8000 {
            st.viol("datagram-too-large", format!("{}: a datagram of {} bytes was sent (limit: smaller than 8000)", label, g.len()));
        }
        match j_decode(g, SERVICE) {
            Ok(s) => {
                if s.is_empty() {
                    st.viol("empty-datagram", format!("{}: a datagram without spans was sent", label));
                }
                // cross-check the independent encoder against the real bytes
                if e_batch(SERVICE, &s) != *g {
                    st.stat("encoder_crosscheck_mismatch", 1);
                }
                got.extend(s);
            }
            Err(e) => st.viol("malformed-thrift", format!("{}: a datagram of {} bytes is not a well-formed emitBatch message: {}", label, g.len(), e)),
        }
    }
    st.stat("largest_datagram", 0);
    let e = st.stats.entry("largest_datagram".into()).or_insert(0);
    *e = (*e).max(max as u64);
    // C20 is about which spans arrive, once and in order: compare identities there; C19 compares
    // every field
    let same = |a: &JSpan, b: &JSpan| -> bool {
        if split_rules {
            a.trace_low == b.trace_low && a.trace_high == b.trace_high && a.span_id == b.span_id && a.parent == b.parent && a.name == b.name
        } else {
            a == b
        }
    };
    if got.len() != want.len() || got.iter().zip(want.iter()).any(|(a, b)| !same(a, b)) {
        // loss on loopback is not the reporter's fault: only a *mismatch* is a violation
        let subseq = {
            let mut it = want.iter();
            got.iter().all(|g| it.any(|w| same(w, g)))
        };
        if subseq && got.len() < want.len() {
            let mut missing = vec![];
            let mut gi = 0;
            for (wi, w) in want.iter().enumerate() {
                if gi < got.len() && same(&got[gi], w) {
                    gi += 1;
                } else {
                    missing.push(wi);
                }
            }
            return Some(missing);
        } else {
            let first = got.iter().zip(want.iter()).position(|(a, b)| !same(a, b)).unwrap_or(got.len().min(want.len()));
            st.viol(
                if got.len() != want.len() { "span-count" } else { "span-content" },
                format!(
                    "{}: {} spans expected in the datagrams ({} records, {} too large to fit alone), {} decoded; first difference at index {}: got {:?}, expected {:?}",
                    label,
                    want.len(),
                    batch.len(),
                    fits.iter().filter(|f| !**f).count(),
                    got.len(),
                    first,
                    got.get(first).map(|s| format!("{:?}", s).chars().take(300).collect::<String>()),
                    want.get(first).map(|s| format!("{:?}", s).chars().take(300).collect::<String>())
                ),
            );
        }
    }
    if st.samples.len() < 3 && !batch.is_empty() {
        st.samples.push(json!({"target": "jaeger", "label": label, "records": batch.len(), "datagram_sizes": grams.iter().map(|g| g.len()).collect::<Vec<_>>(), "first_record": short(&batch[0])}));
    }
    None
}

/// a record whose single-span datagram has exactly `size` bytes
fn sized_record(r: &mut Rng, size: usize) -> SpanRecord {
    let mut rec = rand_record(r, false);
    rec.events.clear();
    rec.name = "".into();
    let base = e_batch(SERVICE, &[j_expected(&rec)]).len();
    if size > base {
        // name length varint grows with the length: iterate to the exact size
        let mut n = size - base;
        // an exact size may not exist (the length prefix grows by a byte at 128 / 16384): a few
        // rounds, then the nearest size is good enough
        // the filler is n bytes long whatever it is made of: half of the records use two-byte
        // characters from a random offset on, so that every byte position of a long name is a
        // character boundary in some record and the middle of a character in another
        let off = r.below(4);
        let wide = r.chance(1, 2);
        for _ in 0..8 {
            rec.name = if wide && n > off + 2 {
                let m = (n - off) / 2;
                format!("{}{}{}", "n".repeat(off), "é".repeat(m), "n".repeat(n - off - 2 * m)).into()
            } else {
                "n".repeat(n).into()
            };
            let got = e_batch(SERVICE, &[j_expected(&rec)]).len();
            if got == size || n == 0 {
                break;
            }
            if got > size {
                n -= got - size;
            } else {
                n += size - got;
            }
        }
    }
    rec
}

fn run_jaeger(st: &mut St, r: &mut Rng, n: usize, deadline: Instant) {
    jaeger_agent_restart(st, r);
    let mut ends = JaegerEnds::new(st);
    jaeger_batch(st, ends.pick(), vec![], false, "empty batch");
    for k in 0..n {
        if Instant::now() > deadline {
            break;
        }
        let sz = match r.below(6) {
            0 => 1,
            1 => r.below(8),
            2 => r.below(2000),
            _ => r.below(120),
        };
        let big = r.chance(1, 4);
        let mut batch: Vec<SpanRecord> = (0..sz).map(|_| rand_record(r, big)).collect();
        if share_span_ids(r, &mut batch) {
            st.stat("batches_with_shared_span_ids", 1);
        }
        if !big && swell(r, &mut batch, 300, 250) {
            st.stat("records_with_over_128_events_or_properties", 1);
        }
        jaeger_batch(st, ends.pick(), batch, false, &format!("random batch #{}", k));
        st.distinct += 1;
    }
    st.stat("batches_to_an_ipv6_agent", ends.n6 as u64);
    st.stat("batches_to_an_ipv4_mapped_agent_address", ends.nm as u64);
    st.stat("batches_to_a_non_loopback_agent_address", ends.no as u64);
}

fn run_split(st: &mut St, r: &mut Rng, n: usize, deadline: Instant) {
    jaeger_agent_restart(st, r);
    let mut ends = JaegerEnds::new(st);
    // single spans right at the limit
    for size in [7990usize, 7997, 7998, 7999, 8000, 8001, 8002, 8100, 20_000, 70_000] {
        let rec = sized_record(r, size);
        jaeger_batch(st, ends.pick(), vec![rec], true, &format!("single span of {} bytes", size));
        st.distinct += 1;
    }
    for k in 0..n {
        if Instant::now() > deadline {
            break;
        }
        let mode = r.below(6);
        let mut batch: Vec<SpanRecord> = vec![];
        match mode {
            // k spans whose common encoding lands on 7998..8002
            0 | 1 => {
                let cnt = 2 + r.below(40);
                let mut recs: Vec<SpanRecord> = (0..cnt - 1).map(|_| rand_record(r, false)).collect();
                let target = 7996 + r.below(8);
                let body: usize = e_batch(SERVICE, &recs.iter().map(j_expected).collect::<Vec<_>>()).len();
                if body + 60 < target {
                    // pad with one span sized so that the whole batch hits the target
                    let mut pad = rand_record(r, false);
                    pad.events.clear();
                    pad.properties.clear();
                    let mut len = target - body - 40;
                    for _ in 0..6 {
                        pad.name = "p".repeat(len).into();
                        let mut all = recs.clone();
                        all.push(pad.clone());
                        let got = e_batch(SERVICE, &all.iter().map(j_expected).collect::<Vec<_>>()).len();
                        if got == target {
                            break;
                        }
                        if got > target {
                            len = len.saturating_sub(got - target);
                        } else {
                            len += target - got;
                        }
                    }
                    recs.push(pad);
                }
                batch = recs;
            }
            // oversize spans at chosen positions
            2 | 3 => {
                let cnt = 1 + r.below(60);
                batch = (0..cnt).map(|_| rand_record(r, false)).collect();
                let positions: Vec<usize> = match r.below(5) {
                    0 => vec![0],
                    1 => vec![cnt - 1],
                    2 => (0..cnt).collect(),
                    3 => {
                        let p = r.below(cnt);
                        vec![p, (p + 1).min(cnt - 1)]
                    }
                    _ => (0..cnt).filter(|_| r.chance(1, 4)).collect(),
                };
                // a little over the limit, or several times over it (a chunk of k spans that is
                // more than k times the limit)
                let mult = if r.chance(1, 2) { 1 } else { 2 + r.below(5) };
                for p in positions {
                    let sz = 8000 * mult + r.below(3000);
                    batch[p] = sized_record(r, sz);
                }
            }
            // many mid-size spans: repeated halving
            4 => {
                let cnt = 3 + r.below(300);
                batch = (0..cnt)
                    .map(|_| {
                        let sz = 1000 + r.below(3500);
                        sized_record(r, sz)
                    })
                    .collect();
            }
            _ => {
                let cnt = r.below(3000);
                batch = (0..cnt).map(|_| rand_record(r, false)).collect();
            }
        }
        jaeger_batch(st, ends.pick(), batch, true, &format!("split batch #{} (mode {})", k, mode));
        st.distinct += 1;
    }
    st.stat("batches_to_an_ipv6_agent", ends.n6 as u64);
    st.stat("batches_to_an_ipv4_mapped_agent_address", ends.nm as u64);
    st.stat("batches_to_a_non_loopback_agent_address", ends.no as u64);
}

// ---- datadog ----

struct HttpSink {
    addr: SocketAddr,
    got: Arc<Mutex<Vec<(String, Vec<u8>)>>>,
}

/// status of the next response of any HttpSink (0 = 200); an agent may well answer 429 or 5xx
/// after it has read the request
static NEXT_STATUS: std::sync::atomic::AtomicU32 = std::sync::atomic::AtomicU32::new(0);

impl HttpSink {
    fn new() -> HttpSink {
        HttpSink::new_on("127.0.0.1:0").expect("loopback listener")
    }
    fn new_on(bind: &str) -> Option<HttpSink> {
        let l = TcpListener::bind(bind).ok()?;
        let addr = l.local_addr().unwrap();
        let got = Arc::new(Mutex::new(Vec::new()));
        let g = got.clone();
        std::thread::spawn(move || {
            for conn in l.incoming() {
                let mut s = match conn {
                    Ok(s) => s,
                    Err(_) => continue,
                };
                let g = g.clone();
                std::thread::spawn(move || {
                    let _ = s.set_read_timeout(Some(Duration::from_secs(10)));
                    let mut buf: Vec<u8> = vec![];
                    let mut tmp = [0u8; 65536];
                    loop {
                        // one request per loop iteration (keep-alive)
                        let hdr_end = loop {
                            if let Some(p) = buf.windows(4).position(|w| w == b"\r\n\r\n") {
                                break Some(p + 4);
                            }
                            match s.read(&mut tmp) {
                                Ok(0) | Err(_) => break None,
                                Ok(n) => buf.extend_from_slice(&tmp[..n]),
                            }
                        };
                        let hdr_end = match hdr_end {
                            Some(h) => h,
                            None => return,
                        };
                        let head = String::from_utf8_lossy(&buf[..hdr_end]).to_string();
                        let len = head
                            .lines()
                            .find_map(|l| {
                                let l = l.to_ascii_lowercase();
                                l.strip_prefix("content-length:").map(|v| v.trim().parse::<usize>().unwrap_or(0))
                            })
                            .unwrap_or(0);
                        while buf.len() < hdr_end + len {
                            match s.read(&mut tmp) {
                                Ok(0) | Err(_) => return,
                                Ok(n) => buf.extend_from_slice(&tmp[..n]),
                            }
                        }
                        let body = buf[hdr_end..hdr_end + len].to_vec();
                        buf.drain(..hdr_end + len);
                        g.lock().unwrap().push((head, body));
                        let st = NEXT_STATUS.swap(0, Ordering::SeqCst);
                        let head = if st == 0 { "HTTP/1.1 200 OK".to_string() } else { format!("HTTP/1.1 {} Status", st) };
                        if s.write_all(format!("{}\r\nContent-Length: 2\r\nContent-Type: application/json\r\n\r\n{{}}", head).as_bytes()).is_err() {
                            return;
                        }
                    }
                });
            }
        });
        Some(HttpSink { addr, got })
    }
}

/// batch sizes around the points where list / array headers switch to a longer form
/// only one shard per target sends the 65535..65537-record batches (`--huge 1`)
static HUGE: std::sync::atomic::AtomicBool = std::sync::atomic::AtomicBool::new(false);

fn boundary_size(k: usize) -> Option<usize> {
    match BOUNDARY_SIZES.get(k) {
        Some(b) if *b < 60000 || HUGE.load(std::sync::atomic::Ordering::SeqCst) => Some(*b),
        Some(_) => Some(1 + k),
        None => None,
    }
}

const BOUNDARY_SIZES: [usize; 16] = [14, 15, 16, 17, 31, 32, 33, 127, 128, 129, 255, 256, 257, 65535, 65536, 65537];

fn run_datadog(st: &mut St, r: &mut Rng, n: usize, deadline: Instant) {
    let sink4 = HttpSink::new();
    let mut rep4 = fastrace_datadog::DatadogReporter::new(sink4.addr, "svc", "res", "web");
    // an agent on the IPv6 loopback address, when the machine has one
    let mut end6 = HttpSink::new_on("[::1]:0").map(|s| {
        let rep = fastrace_datadog::DatadogReporter::new(s.addr, "svc", "res", "web");
        (s, rep)
    });
    if end6.is_none() {
        st.stat("ipv6_loopback_unavailable", 1);
    }
    rep4.report(vec![]);
    if !sink4.got.lock().unwrap().is_empty() {
        st.viol("request-for-empty-batch", "a request was sent for an empty batch".into());
    }
    for k in 0..n {
        if Instant::now() > deadline {
            break;
        }
        let use6 = k % 3 == 2 && end6.is_some();
        let (sink, rep): (&HttpSink, &mut fastrace_datadog::DatadogReporter) = if use6 {
            let e = end6.as_mut().unwrap();
            (&e.0, &mut e.1)
        } else {
            (&sink4, &mut rep4)
        };
        if use6 {
            st.stat("batches_to_an_ipv6_agent", 1);
        }
        // the agent answers this batch with an error status now and then: the records have been
        // transmitted all the same, once
        if r.chance(1, 8) {
            let codes = [429u32, 500, 502, 503, 504, 400, 404, 413];
            NEXT_STATUS.store(codes[r.below(codes.len())], Ordering::SeqCst);
            st.stat("batches_answered_with_an_error_status", 1);
        }
        // the first batches of a run have the sizes at which container headers change their
        // encoding (msgpack fixarray / array16 / array32, thrift short / long list headers)
        // one batch per `--huge` shard is large in bytes rather than in records: a request body
        // of more than 30 MB (3001 records of 10 kB), beyond any default body limit of an agent
        let heavy = HUGE.load(Ordering::SeqCst) && k == BOUNDARY_SIZES.len();
        let sz = match boundary_size(k) {
            Some(b) => b,
            None if heavy => 3001,
            None => match r.below(5) {
                0 => 1,
                1 => r.below(2000),
                _ => r.below(60),
            },
        };
        if sz == 0 {
            continue;
        }
        if BOUNDARY_SIZES.get(k).is_some() {
            st.stat("boundary_size_batches", 1);
        }
        let big = r.chance(1, 4) && sz < 5000 && !heavy;
        let mut batch: Vec<SpanRecord> = (0..sz).map(|_| rand_record(r, big)).collect();
        if heavy {
            for rec in batch.iter_mut() {
                rec.properties.push(("pad".into(), "p".repeat(10_000).into()));
            }
            st.stat("request_bodies_over_30_MB", 1);
        }
        if share_span_ids(r, &mut batch) {
            st.stat("batches_with_shared_span_ids", 1);
        }
        if swell(r, &mut batch, 400, 600) {
            st.stat("records_with_over_128_events_or_properties", 1);
        }
        rep.report(batch.clone());
        st.evals += 1;
        st.distinct += 1;
        st.records += batch.len();
        let reqs = std::mem::take(&mut *sink.got.lock().unwrap());
        if reqs.len() != 1 {
            if reqs.is_empty() {
                // the listener is reachable (probed with a plain connection): a reporter that
                // sends nothing for a non-empty batch, twice more, has lost the batch
                let mut arrived = false;
                for _ in 0..2 {
                    rep.report(batch.clone());
                    std::thread::sleep(Duration::from_millis(50));
                    if !std::mem::take(&mut *sink.got.lock().unwrap()).is_empty() {
                        arrived = true;
                        break;
                    }
                }
                let reachable = std::net::TcpStream::connect_timeout(&sink.addr, Duration::from_secs(2)).is_ok();
                if !arrived && reachable {
                    st.viol("request-missing", format!("datadog batch #{} ({} records) to the agent at {}: no request arrived in 3 report() calls although the agent accepts connections", k, batch.len(), sink.addr));
                } else {
                    st.inconclusive.push(format!("datadog batch #{}: no request arrived (agent reachable: {})", k, reachable));
                }
            } else {
                st.viol("request-count", format!("datadog batch #{}: {} requests for one report() call", k, reqs.len()));
            }
            continue;
        }
        let (head, body) = &reqs[0];
        let first = head.lines().next().unwrap_or("");
        if !first.starts_with("POST /v0.4/traces ") {
            st.viol("request-line", format!("datadog batch #{}: request line {:?}", k, first));
        }
        if !head.to_ascii_lowercase().contains("content-type: application/msgpack") {
            st.viol("content-type", format!("datadog batch #{}: no msgpack content type in {:?}", k, head));
        }
        st.stat("http_body_bytes", body.len() as u64);
        let mut c = Cur { b: body, i: 0 };
        let v = match m_value(&mut c) {
            Ok(v) if c.i == body.len() => v,
            Ok(_) => {
                st.viol("malformed-msgpack", format!("datadog batch #{}: {} bytes of trailing garbage", k, body.len() - c.i));
                continue;
            }
            Err(e) => {
                st.viol("malformed-msgpack", format!("datadog batch #{}: body is not well-formed msgpack: {}", k, e));
                continue;
            }
        };
        let spans = match &v {
            MV::Arr(t) if t.len() == 1 => match &t[0] {
                MV::Arr(s) => s.clone(),
                _ => {
                    st.viol("msgpack-shape", format!("datadog batch #{}: body is not an array of one trace array", k));
                    continue;
                }
            },
            _ => {
                st.viol("msgpack-shape", format!("datadog batch #{}: body is not an array of one trace array", k));
                continue;
            }
        };
        if spans.len() != batch.len() {
            st.viol("span-count", format!("datadog batch #{}: {} spans in the body, {} records in the batch", k, spans.len(), batch.len()));
            continue;
        }
        for (i, (s, rec)) in spans.iter().zip(batch.iter()).enumerate() {
            let m: HashMap<String, MV> = match s {
                MV::Map(kv) => kv.iter().filter_map(|(k, v)| if let MV::Str(k) = k { Some((k.clone(), v.clone())) } else { None }).collect(),
                _ => {
                    st.viol("msgpack-shape", format!("datadog batch #{} span {}: not a map", k, i));
                    continue;
                }
            };
            let mut want: HashMap<String, MV> = HashMap::new();
            want.insert("name".into(), MV::Str(rec.name.to_string()));
            want.insert("service".into(), MV::Str("svc".into()));
            want.insert("type".into(), MV::Str("web".into()));
            want.insert("resource".into(), MV::Str("res".into()));
            want.insert("start".into(), MV::Int(rec.begin_time_unix_ns as i64 as i128));
            want.insert("duration".into(), MV::Int(rec.duration_ns as i64 as i128));
            want.insert("error_code".into(), MV::Int(0));
            want.insert("span_id".into(), MV::Int(rec.span_id.0 as i128));
            want.insert("trace_id".into(), MV::Int(rec.trace_id.0 as u64 as i128));
            want.insert("parent_id".into(), MV::Int(rec.parent_id.0 as i128));
            let mut meta_ok = true;
            if rec.properties.is_empty() {
                meta_ok = !m.contains_key("meta");
            } else {
                let mut wm: HashMap<String, String> = HashMap::new();
                for (k, v) in &rec.properties {
                    wm.insert(k.to_string(), v.to_string());
                }
                match m.get("meta") {
                    Some(MV::Map(kv)) => {
                        let gm: HashMap<String, String> = kv
                            .iter()
                            .filter_map(|(k, v)| match (k, v) {
                                (MV::Str(k), MV::Str(v)) => Some((k.clone(), v.clone())),
                                _ => None,
                            })
                            .collect();
                        if gm != wm || kv.len() != wm.len() {
                            meta_ok = false;
                        }
                    }
                    _ => meta_ok = false,
                }
            }
            let mut fields_ok = m.len() == want.len() + if rec.properties.is_empty() { 0 } else { 1 };
            for (k, v) in &want {
                if m.get(k) != Some(v) {
                    fields_ok = false;
                }
            }
            if !fields_ok || !meta_ok {
                st.viol("span-content", format!("datadog batch #{} span {}: decoded {:?}, record {}", k, i, format!("{:?}", s).chars().take(400).collect::<String>(), short(rec)));
            }
        }
        if st.samples.len() < 3 {
            st.samples.push(json!({"target": "datadog", "records": batch.len(), "body_bytes": body.len(), "first_record": short(&batch[0])}));
        }
    }
}

// ---- opentelemetry ----

#[derive(Clone, Default, Debug)]
struct Capture(Arc<Mutex<Vec<Vec<opentelemetry_sdk::trace::SpanData>>>>, Arc<CaptureCtl>);

#[derive(Default, Debug)]
struct CaptureCtl {
    /// how often the next export futures return Pending before they complete
    pending_polls: std::sync::atomic::AtomicUsize,
    /// the next export fails (after taking the batch)
    fail_next: AtomicBool,
    /// pending exports are woken by another thread, a little later
    wake_elsewhere: AtomicBool,
    /// exports whose future was driven to completion
    completed: std::sync::atomic::AtomicUsize,
    resources_set: Mutex<Vec<String>>,
}

/// completes after `left` more polls, waking itself so that any executor makes progress
struct ExportFut {
    left: usize,
    ctl: Arc<CaptureCtl>,
    fail: bool,
}

impl std::future::Future for ExportFut {
    type Output = opentelemetry_sdk::error::OTelSdkResult;
    fn poll(mut self: std::pin::Pin<&mut Self>, cx: &mut std::task::Context<'_>) -> std::task::Poll<Self::Output> {
        if self.left > 0 {
            self.left -= 1;
            if self.ctl.wake_elsewhere.load(Ordering::SeqCst) {
                // as a network exporter does: the wake-up comes later and from another thread
                let w = cx.waker().clone();
                std::thread::spawn(move || {
                    std::thread::sleep(Duration::from_millis(2));
                    w.wake();
                });
            } else {
                cx.waker().wake_by_ref();
            }
            return std::task::Poll::Pending;
        }
        self.ctl.completed.fetch_add(1, Ordering::SeqCst);
        if self.fail {
            std::task::Poll::Ready(Err(opentelemetry_sdk::error::OTelSdkError::InternalFailure("injected".into())))
        } else {
            std::task::Poll::Ready(Ok(()))
        }
    }
}

impl opentelemetry_sdk::trace::SpanExporter for Capture {
    fn export(&self, batch: Vec<opentelemetry_sdk::trace::SpanData>) -> impl std::future::Future<Output = opentelemetry_sdk::error::OTelSdkResult> + Send {
        self.0.lock().unwrap().push(batch);
        ExportFut { left: self.1.pending_polls.load(Ordering::SeqCst), ctl: self.1.clone(), fail: self.1.fail_next.swap(false, Ordering::SeqCst) }
    }
    fn set_resource(&mut self, resource: &opentelemetry_sdk::Resource) {
        self.1.resources_set.lock().unwrap().push(format!("{:?}", resource.get(&opentelemetry::Key::new("service.name"))));
    }
}

fn run_otel(st: &mut St, r: &mut Rng, n: usize, deadline: Instant) {
    use opentelemetry::trace::SpanKind;
    let cap = Capture::default();
    // the three constructor arguments differ from run to run; all of them must come out again
    let kinds = [SpanKind::Server, SpanKind::Client, SpanKind::Internal, SpanKind::Producer, SpanKind::Consumer];
    let kind = kinds[r.below(kinds.len())].clone();
    let scope_name = format!("scope-{}", r.below(1000));
    let service = format!("svc-{}", r.below(1000));
    let mut rep = fastrace_opentelemetry::OpenTelemetryReporter::new(
        cap.clone(),
        kind.clone(),
        Cow::Owned(opentelemetry_sdk::Resource::builder().with_service_name(service.clone()).build()),
        opentelemetry::InstrumentationScope::builder(scope_name.clone()).with_version("1.2.3").build(),
    );
    {
        let rs = cap.1.resources_set.lock().unwrap();
        if rs.len() != 1 || !rs[0].contains(&service) {
            st.viol("resource-not-passed", format!("the exporter's set_resource was called {} time(s) with {:?}, expected once with service.name {:?}", rs.len(), *rs, service));
        }
    }
    rep.report(vec![]);
    if !cap.0.lock().unwrap().is_empty() {
        st.viol("export-for-empty-batch", "export() was called for an empty batch".into());
    }
    // From here on report() runs on another thread than the one that constructed the reporter, as
    // it does under set_reporter (collector / flush thread), and is awaited with a watchdog.
    let (btx, brx) = std::sync::mpsc::channel::<Vec<SpanRecord>>();
    let (atx, arx) = std::sync::mpsc::channel::<bool>();
    std::thread::spawn(move || {
        let mut rep = rep;
        while let Ok(b) = brx.recv() {
            let ok = std::panic::catch_unwind(std::panic::AssertUnwindSafe(|| rep.report(b))).is_ok();
            if atx.send(ok).is_err() {
                break;
            }
        }
    });
    for k in 0..n {
        if Instant::now() > deadline {
            break;
        }
        let sz = match boundary_size(k) {
            Some(b) => b,
            None => match r.below(5) {
                0 => 1,
                1 => r.below(2000),
                _ => r.below(80),
            },
        };
        if sz == 0 {
            continue;
        }
        let big = r.chance(1, 4) && sz < 5000;
        let mut batch: Vec<SpanRecord> = (0..sz).map(|_| rand_record(r, big)).collect();
        if share_span_ids(r, &mut batch) {
            st.stat("batches_with_shared_span_ids", 1);
        }
        if swell(r, &mut batch, 1500, 600) {
            st.stat("records_with_over_128_events_or_properties", 1);
        }
        // some exports are not ready at once, some fail: the reporter must drive each export to
        // completion, and a failed export must not disturb the next batch
        let pend = if r.chance(1, 4) { 1 + r.below(3) } else { 0 };
        cap.1.pending_polls.store(pend, Ordering::SeqCst);
        let elsewhere = pend > 0 && r.chance(1, 2);
        cap.1.wake_elsewhere.store(elsewhere, Ordering::SeqCst);
        if elsewhere {
            st.stat("exports_woken_by_another_thread", 1);
        }
        let fail = r.chance(1, 12);
        cap.1.fail_next.store(fail, Ordering::SeqCst);
        let done_before = cap.1.completed.load(Ordering::SeqCst);
        let _ = btx.send(batch.clone());
        match arx.recv_timeout(Duration::from_secs(30)) {
            Ok(true) => {}
            Ok(false) => {
                st.viol("report-panicked", format!("otel batch #{}: report() panicked", k));
                return;
            }
            Err(_) => {
                st.viol("report-hung", format!("otel batch #{}: report() did not return within 30 s (export pending for {} poll(s), woken by {}; report() runs on another thread than OpenTelemetryReporter::new() did)", k, pend, if elsewhere { "another thread" } else { "itself" }));
                return;
            }
        }
        st.evals += 1;
        st.distinct += 1;
        st.records += batch.len();
        if pend > 0 {
            st.stat("exports_pending_before_completion", 1);
        }
        if fail {
            st.stat("exports_failing", 1);
        }
        if cap.1.completed.load(Ordering::SeqCst) != done_before + 1 {
            st.viol("export-not-completed", format!("otel batch #{}: report() returned but the export future was driven to completion {} time(s) (it needed {} extra poll(s))", k, cap.1.completed.load(Ordering::SeqCst) - done_before, pend));
        }
        let calls = std::mem::take(&mut *cap.0.lock().unwrap());
        if calls.len() != 1 || calls[0].len() != batch.len() {
            st.viol("span-count", format!("otel batch #{}: {} export calls with {:?} spans for {} records", k, calls.len(), calls.iter().map(|c| c.len()).collect::<Vec<_>>(), batch.len()));
            continue;
        }
        for (i, (d, rec)) in calls[0].iter().zip(batch.iter()).enumerate() {
            let ns = |t: SystemTime| t.duration_since(UNIX_EPOCH).map(|d| d.as_nanos() as u64).unwrap_or(u64::MAX);
            let tid = u128::from_be_bytes(d.span_context.trace_id().to_bytes());
            let sid = u64::from_be_bytes(d.span_context.span_id().to_bytes());
            let pid = u64::from_be_bytes(d.parent_span_id.to_bytes());
            let attrs: Vec<(String, String)> = d.attributes.iter().map(|kv| (kv.key.as_str().to_string(), kv.value.as_str().to_string())).collect();
            let want_attrs: Vec<(String, String)> = rec.properties.iter().map(|(k, v)| (k.to_string(), v.to_string())).collect();
            let evs: Vec<(String, u64, Vec<(String, String)>)> = d
                .events
                .iter()
                .map(|e| (e.name.to_string(), ns(e.timestamp), e.attributes.iter().map(|kv| (kv.key.as_str().to_string(), kv.value.as_str().to_string())).collect()))
                .collect();
            let want_evs: Vec<(String, u64, Vec<(String, String)>)> = rec
                .events
                .iter()
                .map(|e| (e.name.to_string(), e.timestamp_unix_ns, e.properties.iter().map(|(k, v)| (k.to_string(), v.to_string())).collect()))
                .collect();
            let ok = tid == rec.trace_id.0
                && sid == rec.span_id.0
                && pid == rec.parent_id.0
                && d.name == rec.name
                && ns(d.start_time) == rec.begin_time_unix_ns
                && ns(d.end_time) == rec.begin_time_unix_ns + rec.duration_ns
                && attrs == want_attrs
                && evs == want_evs
                && d.span_kind == kind
                && d.links.links.is_empty()
                && d.dropped_attributes_count == 0
                && d.events.dropped_count == 0
                && d.status == opentelemetry::trace::Status::Unset
                && d.instrumentation_scope.name() == scope_name
                && d.instrumentation_scope.version() == Some("1.2.3")
                && d.events.iter().all(|e| e.dropped_attributes_count == 0);
            if !ok {
                st.viol(
                    "span-content",
                    format!(
                        "otel batch #{} span {}: SpanData (trace {:032x}, span {:x}, parent {:x}, name {:?}, start {}, end {}, {} attrs, {} events) does not match record {}",
                        k,
                        i,
                        tid,
                        sid,
                        pid,
                        d.name.chars().take(40).collect::<String>(),
                        ns(d.start_time),
                        ns(d.end_time),
                        attrs.len(),
                        evs.len(),
                        short(rec)
                    ),
                );
            }
        }
        if st.samples.len() < 3 {
            st.samples.push(json!({"target": "opentelemetry", "records": batch.len(), "first_record": short(&batch[0])}));
        }
    }
}

/// An application normally has a logger installed: the `log` macros of the reporters evaluate
/// their arguments only then. This one formats every message (and counts them).
struct CountingLogger;
static LOGGED: std::sync::atomic::AtomicU64 = std::sync::atomic::AtomicU64::new(0);
impl log::Log for CountingLogger {
    fn enabled(&self, _: &log::Metadata) -> bool {
        true
    }
    fn log(&self, record: &log::Record) {
        let s = format!("{}", record.args());
        LOGGED.fetch_add(1 + (s.len() as u64 & 0), Ordering::Relaxed);
    }
    fn flush(&self) {}
}
static LOGGER: CountingLogger = CountingLogger;

fn main() {
    let _ = log::set_logger(&LOGGER);
    log::set_max_level(log::LevelFilter::Trace);
    let v: Vec<String> = std::env::args().collect();
    let mut seed = 1u64;
    let mut out = "/dev/stdout".to_string();
    let mut target = "jaeger".to_string();
    let mut batches = 100usize;
    let mut time_limit = 20.0f64;
    let mut i = 1;
    while i + 1 < v.len() {
        match v[i].as_str() {
            "--seed" => seed = v[i + 1].parse().unwrap_or(1),
            "--out" => out = v[i + 1].clone(),
            "--target" => target = v[i + 1].clone(),
            "--batches" => batches = v[i + 1].parse().unwrap_or(100),
            "--huge" => HUGE.store(v[i + 1] == "1", std::sync::atomic::Ordering::SeqCst),
            "--time-limit" => time_limit = v[i + 1].parse().unwrap_or(20.0),
            _ => {}
        }
        i += 2;
    }
    let t0 = Instant::now();
    let deadline = t0 + Duration::from_secs_f64(time_limit);
    let mut r = Rng(seed.wrapping_mul(0xD1B5_4A32_D192_ED03) ^ 0x5eed);
    let mut st = St { evals: 0, records: 0, distinct: 0, violations: vec![], inconclusive: vec![], samples: vec![], stats: BTreeMap::new() };
    match target.as_str() {
        "jaeger" => run_jaeger(&mut st, &mut r, batches, deadline),
        "split" => run_split(&mut st, &mut r, batches, deadline),
        "datadog" => run_datadog(&mut st, &mut r, batches, deadline),
        "otel" => run_otel(&mut st, &mut r, batches, deadline),
        _ => panic!("unknown target"),
    }
    let doc = json!({
        "engine": "wire",
        "target": target,
        "seed": seed,
        "programs": st.evals,
        "executions": st.evals,
        "distinct_executions": st.distinct,
        "records_checked": st.records,
        "hook_hits": {},
        "counters": st.stats,
        "violations": st.violations,
        "inconclusive": st.inconclusive,
        "known_findings": {},
        "samples": st.samples,
        "wall_s": t0.elapsed().as_secs_f64(),
    });
    std::fs::write(&out, serde_json::to_string_pretty(&doc).unwrap()).unwrap();
    std::process::exit(0);
}
