//! Scenarios that need nothing but the public API, run against the feature set users build
//! (`enable` without `verif`): the instrumented build that every other engine uses could differ from
//! the shipped one exactly where the instrumentation sits. One process per scenario; the parent
//! reads the JSON document and the exit status.

use std::panic::{catch_unwind, AssertUnwindSafe};
use std::sync::atomic::{AtomicBool, AtomicUsize, Ordering};
use std::sync::{Arc, Mutex};
use std::time::{Duration, Instant};

use fastrace::collector::{Config, Reporter, SpanContext, SpanId, SpanRecord, TraceId};
use fastrace::local::LocalCollector;
use fastrace::prelude::*;
use serde_json::json;

/// Bytes currently allocated by the whole process.
struct Counting;
static LIVE_BYTES: std::sync::atomic::AtomicIsize = std::sync::atomic::AtomicIsize::new(0);
unsafe impl std::alloc::GlobalAlloc for Counting {
    unsafe fn alloc(&self, l: std::alloc::Layout) -> *mut u8 {
        LIVE_BYTES.fetch_add(l.size() as isize, Ordering::Relaxed);
        std::alloc::System.alloc(l)
    }
    unsafe fn dealloc(&self, p: *mut u8, l: std::alloc::Layout) {
        LIVE_BYTES.fetch_sub(l.size() as isize, Ordering::Relaxed);
        std::alloc::System.dealloc(p, l)
    }
    unsafe fn realloc(&self, p: *mut u8, l: std::alloc::Layout, n: usize) -> *mut u8 {
        LIVE_BYTES.fetch_add(n as isize - l.size() as isize, Ordering::Relaxed);
        std::alloc::System.realloc(p, l, n)
    }
}
#[global_allocator]
static ALLOC: Counting = Counting;

static CALLS: AtomicUsize = AtomicUsize::new(0);
fn c() {
    CALLS.fetch_add(1, Ordering::Relaxed);
}

#[derive(Clone, Default)]
struct Rep(Arc<Mutex<Vec<SpanRecord>>>);
impl Reporter for Rep {
    fn report(&mut self, spans: Vec<SpanRecord>) {
        self.0.lock().unwrap().extend(spans);
    }
}
impl Rep {
    fn count(&self, trace: u128) -> usize {
        self.0.lock().unwrap().iter().filter(|r| r.trace_id.0 == trace).count()
    }
    fn names(&self, trace: u128) -> Vec<String> {
        let mut v: Vec<String> = self.0.lock().unwrap().iter().filter(|r| r.trace_id.0 == trace).map(|r| r.name.to_string()).collect();
        v.sort();
        v
    }
}

/// one trace: a root, a child, a local span with an event and a property; all finished on this thread
fn small_trace(trace: u128, tag: &'static str) {
    let root = Span::root(tag, SpanContext::new(TraceId(trace), SpanId(7)));
    c();
    {
        let _g = root.set_local_parent();
        let _l = LocalSpan::enter_with_local_parent("local").with_property(|| ("k", "v"));
        LocalSpan::add_event(Event::new("e"));
        c();
    }
    let _child = Span::enter_with_parent("child", &root);
    c();
}

fn wait_until(limit: Duration, mut f: impl FnMut() -> bool) -> bool {
    let t = Instant::now();
    while t.elapsed() < limit {
        if f() {
            return true;
        }
        std::thread::sleep(Duration::from_millis(2));
    }
    f()
}

fn main() {
    let v: Vec<String> = std::env::args().collect();
    let mut scenario = String::new();
    let mut out = "/dev/stdout".to_string();
    let mut i = 1;
    while i + 1 < v.len() {
        match v[i].as_str() {
            "--scenario" => scenario = v[i + 1].clone(),
            "--out" => out = v[i + 1].clone(),
            _ => {}
        }
        i += 2;
    }
    let t0 = Instant::now();
    let mut extra = json!({});
    let sc = scenario.clone();
    let r = catch_unwind(AssertUnwindSafe(|| match sc.as_str() {
        // C08: nothing is retained for a thread that traced and exited
        "thread-churn-heap" => {
            let rep = Rep::default();
            fastrace::set_reporter(rep.clone(), Config::default().report_interval(Duration::from_millis(2)));
            let churn = |n: usize, base: u128| {
                for k in 0..n {
                    std::thread::spawn(move || small_trace(base + k as u128, "churn")).join().unwrap();
                }
            };
            churn(8, 0x1000);
            fastrace::flush();
            fastrace::flush();
            rep.0.lock().unwrap().clear();
            rep.0.lock().unwrap().shrink_to_fit();
            let mut growth = vec![];
            let mut before = LIVE_BYTES.load(Ordering::SeqCst);
            for round in 0..4u128 {
                churn(48, 0x2000 + round * 0x100);
                fastrace::flush();
                fastrace::flush();
                let n = rep.0.lock().unwrap().len();
                if n != 48 * 3 {
                    panic!("round {}: {} records delivered for 48 threads x 3 spans", round, n);
                }
                rep.0.lock().unwrap().clear();
                rep.0.lock().unwrap().shrink_to_fit();
                let now = LIVE_BYTES.load(Ordering::SeqCst);
                growth.push((now - before) / 48);
                before = now;
            }
            extra = json!({"exited_threads": 4 * 48, "live_heap_growth_per_exited_thread_by_round": growth});
            // a command ring alone is more than a megabyte; bookkeeping noise is a few hundred bytes
            if growth.iter().all(|g| *g > 64 * 1024) {
                panic!("the process retains {:?} bytes (by round) for every thread that traced and exited, after its commands were consumed", growth);
            }
        }
        // C04: cancel() suppresses the trace whatever the other settings of the configuration are
        "cancel-config-matrix" => {
            let intervals = [Duration::ZERO, Duration::from_nanos(1), Duration::from_micros(50), Duration::from_micros(100), Duration::from_millis(1), Duration::from_millis(40)];
            let mut checked = 0;
            for (k, iv) in intervals.iter().enumerate() {
                for order in 0..2 {
                    let cfg = if order == 0 { Config::default().cancelable(true).report_interval(*iv) } else { Config::default().report_interval(*iv).cancelable(true) };
                    let rep = Rep::default();
                    fastrace::set_reporter(rep.clone(), cfg);
                    let tc = 0xC400 + (k * 2 + order) as u128 * 4;
                    let tk = tc + 1;
                    let root = Span::root("cancelled-root", SpanContext::new(TraceId(tc), SpanId(1)));
                    {
                        let _c1 = Span::enter_with_parent("cancelled-child", &root);
                    }
                    let r2 = Span::enter_with_parent("cancelled-child-elsewhere", &root);
                    std::thread::spawn(move || drop(r2)).join().unwrap();
                    let late = Span::enter_with_parent("cancelled-late-child", &root);
                    std::thread::sleep(*iv * 2 + Duration::from_millis(2));
                    root.cancel();
                    c();
                    drop(root);
                    drop(late);
                    small_trace(tk, "kept-root");
                    fastrace::flush();
                    std::thread::sleep(*iv * 2 + Duration::from_millis(2));
                    fastrace::flush();
                    let leaked = rep.names(tc);
                    let kept = rep.names(tk);
                    if !leaked.is_empty() {
                        panic!("cancelable(true) with report_interval {:?} (builder order {}): records of the cancelled trace were delivered: {:?}", iv, order, leaked);
                    }
                    if kept.len() != 3 {
                        panic!("cancelable(true) with report_interval {:?} (builder order {}): the other trace was delivered as {:?}", iv, order, kept);
                    }
                    checked += 1;
                }
            }
            // park the busy collectors of the zero-interval variants behind a quiet one
            fastrace::set_reporter(Rep::default(), Config::default());
            extra = json!({"configurations_checked": checked});
        }
        // C07: a reporter that failed once in the background does not make later calls panic
        "reporter-panicked-earlier" => {
            struct Once(Rep, Arc<AtomicBool>);
            impl Reporter for Once {
                fn report(&mut self, spans: Vec<SpanRecord>) {
                    let background = std::thread::current().name() == Some("fastrace-global-collector");
                    if background && !spans.is_empty() && !self.1.swap(true, Ordering::SeqCst) {
                        panic!("exporter failed (once, in the background collector thread)");
                    }
                    self.0.report(spans);
                }
            }
            std::panic::set_hook(Box::new(|_| {}));
            let failed = Arc::new(AtomicBool::new(false));
            let rep = Rep::default();
            fastrace::set_reporter(Once(rep.clone(), failed.clone()), Config::default().report_interval(Duration::from_millis(3)));
            small_trace(0xE001, "first");
            if !wait_until(Duration::from_secs(10), || failed.load(Ordering::SeqCst)) {
                extra = json!({"skipped": "the background collector never called report()"});
                return;
            }
            std::thread::sleep(Duration::from_millis(20));
            // a new reporter is installed (as an application that noticed the failure would do);
            // from here on every call has to return normally again
            let rep2 = Rep::default();
            let r2 = rep2.clone();
            let mut failures: Vec<String> = vec![];
            let mut call = |what: &str, f: &mut dyn FnMut()| {
                c();
                if catch_unwind(AssertUnwindSafe(f)).is_err() {
                    failures.push(what.to_string());
                }
            };
            call("set_reporter", &mut || fastrace::set_reporter(r2.clone(), Config::default().report_interval(Duration::from_millis(3))));
            call("Span::root + children", &mut || small_trace(0xE002, "second"));
            call("flush", &mut || fastrace::flush());
            call("a thread's first span", &mut || std::thread::spawn(|| small_trace(0xE003, "third")).join().unwrap());
            call("flush", &mut || fastrace::flush());
            let got = (rep2.count(0xE002), rep2.count(0xE003));
            extra = json!({"calls_that_panicked_after_the_failure": failures, "records_of_later_traces": [got.0, got.1]});
            if !failures.is_empty() {
                panic!("after one report() call had panicked in the background collector thread, these calls panicked in the host: {:?}", failures);
            }
            if got != (3, 3) {
                panic!("after one report() call had panicked in the background collector thread and a new reporter was installed, later traces were delivered as {:?} records (expected 3 and 3)", got);
            }
        }
        // C01: delivery needs no further call, also after a cycle took longer than the interval
        "slow-report-overruns-interval" => {
            struct Slow(Rep, Arc<AtomicBool>);
            impl Reporter for Slow {
                fn report(&mut self, spans: Vec<SpanRecord>) {
                    if !spans.is_empty() && !self.1.swap(true, Ordering::SeqCst) {
                        std::thread::sleep(Duration::from_millis(150));
                    }
                    self.0.report(spans);
                }
            }
            let rep = Rep::default();
            let slept = Arc::new(AtomicBool::new(false));
            fastrace::set_reporter(Slow(rep.clone(), slept.clone()), Config::default().report_interval(Duration::from_millis(20)));
            small_trace(0xD001, "slow-batch");
            if !wait_until(Duration::from_secs(20), || rep.count(0xD001) == 3) {
                panic!("the first trace was not delivered by the background collector within 20 s: {} records", rep.count(0xD001));
            }
            let mut waits = vec![];
            for k in 0..3u128 {
                let t = Instant::now();
                small_trace(0xD010 + k, "after-overrun");
                // no flush(): 20 s are a thousand report intervals; this is a watchdog, not a deadline
                if !wait_until(Duration::from_secs(20), || rep.count(0xD010 + k) == 3) {
                    panic!("after one collector cycle had taken longer than the report interval (150 ms report() against 20 ms), a trace finished later was not delivered without flush() within 20 s ({} of 3 records)", rep.count(0xD010 + k));
                }
                waits.push(t.elapsed().as_millis() as u64);
            }
            extra = json!({"delivery_wait_ms_after_the_overrun": waits});
        }
        // C13: enter_on_poll records one local span per poll under whatever name it is given
        "enter-on-poll-names" => {
            use std::future::Future;
            use std::task::{Context, Poll};
            struct Steps(u32);
            impl Future for Steps {
                type Output = u32;
                fn poll(mut self: std::pin::Pin<&mut Self>, _cx: &mut Context<'_>) -> Poll<u32> {
                    let _w = LocalSpan::enter_with_local_parent("work");
                    if self.0 == 0 {
                        Poll::Ready(7)
                    } else {
                        self.0 -= 1;
                        Poll::Pending
                    }
                }
            }
            let rep = Rep::default();
            fastrace::set_reporter(rep.clone(), Config::default());
            let names: Vec<String> = vec!["".into(), " ".into(), "p".into(), "poll é".into(), "x".repeat(300)];
            let waker = futures::task::noop_waker();
            let mut cx = Context::from_waker(&waker);
            let mut checked = 0;
            for (k, name) in names.iter().enumerate() {
                let tid = 0xE0A0 + k as u128;
                let root = Span::root("root", SpanContext::new(TraceId(tid), SpanId(1)));
                {
                    let _g = root.set_local_parent();
                    let mut fut = Box::pin(Steps(2).enter_on_poll(name.clone()));
                    let mut polls = 0;
                    loop {
                        polls += 1;
                        c();
                        if fut.as_mut().poll(&mut cx).is_ready() {
                            break;
                        }
                    }
                    assert_eq!(polls, 3);
                }
                drop(root);
                fastrace::flush();
                let recs: Vec<SpanRecord> = rep.0.lock().unwrap().iter().filter(|r| r.trace_id.0 == tid).cloned().collect();
                let root_id = recs.iter().find(|r| r.name == "root").map(|r| r.span_id);
                let polls: Vec<&SpanRecord> = recs.iter().filter(|r| r.name == name.as_str() && Some(r.parent_id) == root_id).collect();
                let works_under_polls = recs.iter().filter(|r| r.name == "work" && polls.iter().any(|p| p.span_id == r.parent_id)).count();
                if polls.len() != 3 || works_under_polls != 3 || recs.len() != 7 {
                    panic!("enter_on_poll({:?}) polled three times: {} per-poll spans of that name under the local parent, {} of the 3 inner spans under them, {} records in all (expected 3, 3, 7): {:?}", name, polls.len(), works_under_polls, recs.len(), recs.iter().map(|r| (r.name.to_string(), r.parent_id.0)).collect::<Vec<_>>());
                }
                checked += 1;
            }
            extra = json!({"names_checked": checked});
        }
        // C05: what is attached inside the scope of an unsampled span never reaches the reporter, also
        // when the property closure owns (and may drop) that scope's guard
        "property-closure-owning-a-guard" => {
            let rep = Rep::default();
            fastrace::set_reporter(rep.clone(), Config::default());
            let sampled = Span::root("sampled-root", SpanContext::new(TraceId(0x5A01), SpanId(1)));
            let unsampled = Span::root("unsampled-root", SpanContext::new(TraceId(0x5A02), SpanId(1)).sampled(false));
            let ran = Arc::new(AtomicBool::new(false));
            {
                let _g1 = sampled.set_local_parent();
                let _work = LocalSpan::enter_with_local_parent("sampled-work");
                let g2 = unsampled.set_local_parent();
                let holder = std::cell::RefCell::new(Some(g2));
                let ran2 = ran.clone();
                // the closure is the owner of the inner scope's guard: if it runs, the guard goes
                LocalSpan::add_properties(|| {
                    ran2.store(true, Ordering::SeqCst);
                    drop(holder.borrow_mut().take());
                    [("unsampled.user", "alice")]
                });
                c();
                drop(holder.borrow_mut().take());
                LocalSpan::add_property(|| ("sampled.key", "kept"));
            }
            drop(unsampled);
            drop(sampled);
            fastrace::flush();
            let recs = rep.0.lock().unwrap();
            let leaked: Vec<String> = recs
                .iter()
                .filter(|r| r.trace_id.0 == 0x5A02 || r.properties.iter().any(|(k, _)| k == "unsampled.user"))
                .map(|r| format!("{} {:?}", r.name, r.properties))
                .collect();
            let work = recs.iter().find(|r| r.name == "sampled-work").map(|r| r.properties.iter().map(|(k, v)| format!("{}={}", k, v)).collect::<Vec<_>>());
            extra = json!({"closure_ran": ran.load(Ordering::SeqCst), "sampled_work_properties": work});
            if !leaked.is_empty() {
                panic!("a property added inside the scope of an unsampled span was delivered: {:?}", leaked);
            }
            if work != Some(vec!["sampled.key=kept".to_string()]) {
                panic!("the local span of the sampled trace was delivered with properties {:?}, expected [sampled.key=kept]", work);
            }
        }
        // C14: an adapter call made from a destructor while the thread unwinds is scoped like any other
        "adapter-call-in-drop-while-unwinding" => {
            use futures::Sink;
            use std::task::{Context, Poll};
            struct Inner;
            impl Sink<u32> for Inner {
                type Error = ();
                fn poll_ready(self: std::pin::Pin<&mut Self>, _: &mut Context<'_>) -> Poll<Result<(), ()>> {
                    let _l = LocalSpan::enter_with_local_parent("ready");
                    Poll::Ready(Ok(()))
                }
                fn start_send(self: std::pin::Pin<&mut Self>, _: u32) -> Result<(), ()> {
                    let _l = LocalSpan::enter_with_local_parent("send");
                    Ok(())
                }
                fn poll_flush(self: std::pin::Pin<&mut Self>, _: &mut Context<'_>) -> Poll<Result<(), ()>> {
                    let _l = LocalSpan::enter_with_local_parent("flush");
                    Poll::Ready(Ok(()))
                }
                fn poll_close(self: std::pin::Pin<&mut Self>, _: &mut Context<'_>) -> Poll<Result<(), ()>> {
                    let _l = LocalSpan::enter_with_local_parent("close");
                    Poll::Ready(Ok(()))
                }
            }
            /// closes the sink when its owner goes away, also when that happens by unwinding
            struct CloseOnDrop<S: Sink<u32> + Unpin>(S);
            impl<S: Sink<u32> + Unpin> Drop for CloseOnDrop<S> {
                fn drop(&mut self) {
                    let waker = futures::task::noop_waker();
                    let mut cx = Context::from_waker(&waker);
                    let _ = std::pin::Pin::new(&mut self.0).poll_flush(&mut cx);
                    let _ = std::pin::Pin::new(&mut self.0).poll_close(&mut cx);
                }
            }
            std::panic::set_hook(Box::new(|_| {}));
            let rep = Rep::default();
            fastrace::set_reporter(rep.clone(), Config::default());
            for (k, unwinding) in [false, true].into_iter().enumerate() {
                let tid = 0xAD00 + k as u128;
                let root = Span::root("root", SpanContext::new(TraceId(tid), SpanId(1)));
                let span = Span::enter_with_parent("sink", &root);
                let r = std::thread::spawn(move || {
                    let waker = futures::task::noop_waker();
                    let mut cx = Context::from_waker(&waker);
                    let mut w = CloseOnDrop(fastrace_futures::SinkExt::<u32>::in_span(Inner, span));
                    let _ = std::pin::Pin::new(&mut w.0).poll_ready(&mut cx);
                    let _ = std::pin::Pin::new(&mut w.0).start_send(1);
                    c();
                    if unwinding {
                        panic!("an unrelated failure of the worker");
                    }
                })
                .join();
                assert_eq!(r.is_err(), unwinding);
                drop(root);
                fastrace::flush();
                let recs: Vec<SpanRecord> = rep.0.lock().unwrap().iter().filter(|r| r.trace_id.0 == tid).cloned().collect();
                let sink_id = recs.iter().find(|r| r.name == "sink").map(|r| r.span_id);
                let mut kids: Vec<String> = recs.iter().filter(|r| Some(r.parent_id) == sink_id).map(|r| r.name.to_string()).collect();
                kids.sort();
                if sink_id.is_none() || kids != ["close", "flush", "ready", "send"] {
                    panic!("a sink adapter whose owner was dropped {}: its span has the children {:?} (expected close, flush, ready, send); records {:?}", if unwinding { "by a panic unwinding the thread" } else { "normally" }, kids, recs.iter().map(|r| r.name.to_string()).collect::<Vec<_>>());
                }
            }
            extra = json!({"cases": 2});
        }
        // C14 / C18: a stream that announces its length exactly is still bound to its span until it
        // has returned None
        "stream-with-exact-size-hint" => {
            use futures::Stream;
            use std::task::{Context, Poll};
            struct Exact(u32, bool);
            impl Stream for Exact {
                type Item = u32;
                fn poll_next(mut self: std::pin::Pin<&mut Self>, _cx: &mut Context<'_>) -> Poll<Option<u32>> {
                    if self.0 > 0 {
                        let _p = LocalSpan::enter_with_local_parent("produce");
                        std::thread::sleep(Duration::from_millis(5));
                        self.0 -= 1;
                        Poll::Ready(Some(self.0))
                    } else {
                        let _t = LocalSpan::enter_with_local_parent("teardown");
                        std::thread::sleep(Duration::from_millis(15));
                        Poll::Ready(None)
                    }
                }
                fn size_hint(&self) -> (usize, Option<usize>) {
                    if self.1 { (self.0 as usize, Some(self.0 as usize)) } else { (0, None) }
                }
            }
            let rep = Rep::default();
            fastrace::set_reporter(rep.clone(), Config::default());
            let waker = futures::task::noop_waker();
            let mut cx = Context::from_waker(&waker);
            for (k, exact) in [false, true].into_iter().enumerate() {
                let tid = 0xE5A0 + k as u128;
                let root = Span::root("root", SpanContext::new(TraceId(tid), SpanId(1)));
                let span = Span::enter_with_parent("stream", &root);
                let t = Instant::now();
                let mut st = Box::pin(fastrace_futures::StreamExt::in_span(Exact(3, exact), span));
                let mut items = 0;
                loop {
                    c();
                    match st.as_mut().poll_next(&mut cx) {
                        Poll::Ready(Some(_)) => {
                            items += 1;
                            // the consumer works on the item
                            std::thread::sleep(Duration::from_millis(5));
                        }
                        Poll::Ready(None) => break,
                        Poll::Pending => unreachable!(),
                    }
                }
                let ran = t.elapsed();
                drop(st);
                drop(root);
                fastrace::flush();
                let recs: Vec<SpanRecord> = rep.0.lock().unwrap().iter().filter(|r| r.trace_id.0 == tid).cloned().collect();
                let s = recs.iter().find(|r| r.name == "stream").cloned();
                let s = match s {
                    Some(s) => s,
                    None => panic!("exact size_hint = {}: the stream's span was not delivered: {:?}", exact, recs.iter().map(|r| r.name.to_string()).collect::<Vec<_>>()),
                };
                let mut kids: Vec<String> = recs.iter().filter(|r| r.parent_id == s.span_id).map(|r| r.name.to_string()).collect();
                kids.sort();
                // the span covers everything up to the poll that returned None: at least the sleeps
                // inside the polls and between them (3 x 5 + 3 x 5 + 15 ms), and not more than the whole run
                let lo = Duration::from_millis(44).as_nanos() as u64;
                let hi = ran.as_nanos() as u64 + 2_000_000;
                if items != 3 || kids != ["produce", "produce", "produce", "teardown"] || s.duration_ns < lo || s.duration_ns > hi {
                    panic!("exact size_hint = {}: the span of a stream polled to None has children {:?} and lasted {} ns (the stream ran {} ns; expected produce x3 + teardown and at least {} ns)", exact, kids, s.duration_ns, ran.as_nanos(), lo);
                }
            }
            extra = json!({"streams_checked": 2});
        }
        // C07 / C10: flush() inside a local-parent scope with a reporter that traces its own work:
        // report() does not run in the caller's context
        "flush-inside-scope-with-tracing-reporter" => {
            struct Traced(Rep);
            impl Reporter for Traced {
                fn report(&mut self, spans: Vec<SpanRecord>) {
                    let _l = LocalSpan::enter_with_local_parent("export-batch").with_property(|| ("n", spans.len().to_string()));
                    LocalSpan::add_event(Event::new("exported"));
                    self.0.report(spans);
                }
            }
            let rep = Rep::default();
            fastrace::set_reporter(Traced(rep.clone()), Config::default().report_interval(Duration::from_secs(3600)));
            std::thread::sleep(Duration::from_millis(20));
            let root = Span::root("user-root", SpanContext::new(TraceId(0xF1A5), SpanId(1)));
            {
                let _g = root.set_local_parent();
                drop(Span::enter_with_local_parent("before-flush"));
                let ctx_before = SpanContext::current_local_parent().map(|c| c.span_id);
                fastrace::flush();
                c();
                let ctx_after = SpanContext::current_local_parent().map(|c| c.span_id);
                if ctx_before != ctx_after {
                    panic!("flush() changed the caller's local parent: {:?} -> {:?}", ctx_before, ctx_after);
                }
                let _l = LocalSpan::enter_with_local_parent("after-flush");
            }
            drop(root);
            fastrace::flush();
            fastrace::flush();
            let mut names = rep.names(0xF1A5);
            names.sort();
            extra = json!({"records_of_the_user_trace": names});
            if names != ["after-flush", "before-flush", "user-root"] {
                panic!("flush() was called inside a local-parent scope with a reporter that opens a local span in report(): the user's trace was delivered as {:?}", names);
            }
        }
        // C03 / C04: a long-lived thread that has started thousands of traces, while other threads
        // keep their first trace open for a long time: every trace stays its own
        "many-traces-per-thread-cancelable" => {
            let rep = Rep::default();
            fastrace::set_reporter(rep.clone(), Config::default().cancelable(true).report_interval(Duration::from_millis(1)));
            let progress = Arc::new(AtomicUsize::new(0));
            let done = Arc::new(AtomicBool::new(false));
            let mut victims = vec![];
            for (k, start_at) in [1usize, 4500, 9000, 13500].into_iter().enumerate() {
                let progress = progress.clone();
                let done = done.clone();
                victims.push(std::thread::spawn(move || {
                    while progress.load(Ordering::SeqCst) < start_at {
                        std::thread::sleep(Duration::from_micros(200));
                    }
                    // this thread's first trace, kept open while the busy thread goes on
                    let root = Span::root("victim", SpanContext::new(TraceId(0x71C0 + k as u128), SpanId(1)));
                    drop(Span::enter_with_parent("victim-child", &root));
                    while !done.load(Ordering::SeqCst) {
                        std::thread::sleep(Duration::from_millis(1));
                    }
                    root.add_event(Event::new("late"));
                    drop(root);
                }));
            }
            let n = 18_000u128;
            for i in 0..n {
                let root = Span::root("busy", SpanContext::new(TraceId(0x100_0000 + i), SpanId(1)));
                drop(Span::enter_with_parent("busy-child", &root));
                if i % 3 == 2 {
                    root.cancel();
                }
                drop(root);
                c();
                progress.store(i as usize + 1, Ordering::SeqCst);
                if i % 512 == 511 {
                    // let the background collector keep up: no queue may fill
                    std::thread::sleep(Duration::from_millis(3));
                }
            }
            std::thread::sleep(Duration::from_millis(20));
            done.store(true, Ordering::SeqCst);
            for v in victims {
                v.join().unwrap();
            }
            fastrace::flush();
            std::thread::sleep(Duration::from_millis(10));
            fastrace::flush();
            let recs = rep.0.lock().unwrap();
            let mut per: std::collections::HashMap<u128, Vec<String>> = std::collections::HashMap::new();
            for r in recs.iter() {
                per.entry(r.trace_id.0).or_default().push(r.name.to_string());
            }
            let mut bad: Vec<String> = vec![];
            for k in 0..4u128 {
                let mut got = per.get(&(0x71C0 + k)).cloned().unwrap_or_default();
                got.sort();
                if got != ["victim", "victim-child"] {
                    bad.push(format!("the trace kept open by thread {} (its first) was delivered as {:?}", k, got));
                }
            }
            let mut kept_ok = 0;
            for i in 0..n {
                let got = per.get(&(0x100_0000 + i)).map(|v| v.len()).unwrap_or(0);
                let want = if i % 3 == 2 { 0 } else { 2 };
                if got != want {
                    if bad.len() < 6 {
                        bad.push(format!("trace #{} of the busy thread ({}): {} records, expected {}", i, if want == 0 { "cancelled" } else { "kept" }, got, want));
                    }
                } else {
                    kept_ok += 1;
                }
            }
            extra = json!({"traces_started_on_one_thread": n as u64, "of_them_as_expected": kept_ok, "long_lived_first_traces_of_other_threads": 4});
            if !bad.is_empty() {
                panic!("{}", bad.join("; "));
            }
        }
        // C07: a thread can exit while the collector is busy, whatever it left in its queue
        "exit-with-full-queue-while-reporter-busy" => {
            struct Gated(Rep, Arc<AtomicBool>, Arc<AtomicBool>);
            impl Reporter for Gated {
                fn report(&mut self, spans: Vec<SpanRecord>) {
                    if !spans.is_empty() && !self.1.swap(true, Ordering::SeqCst) {
                        let t = Instant::now();
                        while !self.2.load(Ordering::SeqCst) && t.elapsed() < Duration::from_secs(60) {
                            std::thread::sleep(Duration::from_millis(1));
                        }
                    }
                    self.0.report(spans);
                }
            }
            let rep = Rep::default();
            let entered = Arc::new(AtomicBool::new(false));
            let release = Arc::new(AtomicBool::new(false));
            fastrace::set_reporter(Gated(rep.clone(), entered.clone(), release.clone()), Config::default().report_interval(Duration::from_millis(3)));
            small_trace(0xEE01, "before");
            if !wait_until(Duration::from_secs(10), || entered.load(Ordering::SeqCst)) {
                extra = json!({"skipped": "the background collector never called report()"});
                return;
            }
            // the collector is inside report(): nothing is drained. A worker fills its queue, finishes a
            // root (the finish signal is parked behind the full queue) and returns.
            let (tx, rx) = std::sync::mpsc::channel();
            let worker = std::thread::spawn(move || {
                let root = Span::root("worker-root", SpanContext::new(TraceId(0xEE02), SpanId(1)));
                for _ in 0..11_000 {
                    root.add_event(Event::new("e"));
                }
                drop(root);
                let _ = tx.send(());
            });
            let body_done = rx.recv_timeout(Duration::from_secs(30)).is_ok();
            // 30 s are ten thousand report intervals: a watchdog for "never", not a deadline
            // (join() returns only after the thread-local destructors have run; is_finished() does not wait for them)
            let (jtx, jrx) = std::sync::mpsc::channel();
            let joiner = std::thread::spawn(move || {
                let _ = worker.join();
                let _ = jtx.send(());
            });
            let exited = jrx.recv_timeout(Duration::from_secs(30)).is_ok();
            release.store(true, Ordering::SeqCst);
            let _ = joiner.join();
            extra = json!({"worker_body_returned": body_done, "worker_thread_exited_while_the_reporter_was_busy": exited});
            if !body_done {
                panic!("tracing calls on a thread with a full queue did not return within 30 s while the reporter was busy");
            }
            if !exited {
                panic!("a thread that had filled its queue and finished a root could not exit within 30 s while the collector was busy inside report(): its thread-local teardown waits for the collector");
            }
        }
        // C07: report() runs on the library's threads; a reporter that needs an ordinary amount of
        // stack (well inside the default 2 MiB of a Rust thread) must not bring the process down
        "reporter-needs-stack" => {
            struct Hungry(Rep);
            impl Reporter for Hungry {
                fn report(&mut self, spans: Vec<SpanRecord>) {
                    // an on-stack scratch buffer of 600 KiB, as an encoder might keep
                    let mut buf = [0u8; 600 * 1024];
                    for (i, r) in spans.iter().enumerate() {
                        buf[(i * 4099) % buf.len()] = r.name.len() as u8;
                    }
                    std::hint::black_box(&mut buf);
                    self.0.report(spans);
                }
            }
            let rep = Rep::default();
            fastrace::set_reporter(Hungry(rep.clone()), Config::default().report_interval(Duration::from_millis(5)));
            // through the background collector
            small_trace(0x57A1, "background");
            if !wait_until(Duration::from_secs(20), || rep.count(0x57A1) == 3) {
                panic!("the background collector did not deliver within 20 s");
            }
            // and through flush()
            for k in 0..3u128 {
                small_trace(0x57B0 + k, "flushed");
                fastrace::flush();
                c();
            }
            let n: usize = (0..3u128).map(|k| rep.count(0x57B0 + k)).sum();
            extra = json!({"stack_bytes_used_by_report": 600 * 1024, "records_delivered_through_flush": n});
            if n != 9 {
                panic!("{} of 9 records delivered through flush()", n);
            }
        }
        // C01: a reporter being replaced while the old one is busy does not turn new traces into no-ops
        "set-reporter-while-reporting" => {
            struct Gated(Rep, Arc<AtomicBool>, Arc<AtomicBool>);
            impl Reporter for Gated {
                fn report(&mut self, spans: Vec<SpanRecord>) {
                    if !spans.is_empty() && !self.1.swap(true, Ordering::SeqCst) {
                        let t = Instant::now();
                        while !self.2.load(Ordering::SeqCst) && t.elapsed() < Duration::from_secs(20) {
                            std::thread::sleep(Duration::from_millis(1));
                        }
                    }
                    self.0.report(spans);
                }
            }
            let rep1 = Rep::default();
            let rep2 = Rep::default();
            let entered = Arc::new(AtomicBool::new(false));
            let release = Arc::new(AtomicBool::new(false));
            fastrace::set_reporter(Gated(rep1.clone(), entered.clone(), release.clone()), Config::default().report_interval(Duration::from_millis(3)));
            small_trace(0x5E01, "before");
            if !wait_until(Duration::from_secs(10), || entered.load(Ordering::SeqCst)) {
                extra = json!({"skipped": "the background collector never called report()"});
                return;
            }
            // the collector is inside report() now; a second set_reporter has to wait for it
            let r2 = rep2.clone();
            let helper = std::thread::spawn(move || fastrace::set_reporter(r2, Config::default().report_interval(Duration::from_millis(3))));
            std::thread::sleep(Duration::from_millis(300));
            let root = Span::root("during", SpanContext::new(TraceId(0x5E02), SpanId(1)));
            c();
            let recording = SpanContext::from_span(&root).is_some();
            {
                let _g = root.set_local_parent();
                let _l = LocalSpan::enter_with_local_parent("during-local");
            }
            drop(Span::enter_with_parent("during-child", &root));
            drop(root);
            release.store(true, Ordering::SeqCst);
            helper.join().unwrap();
            fastrace::flush();
            std::thread::sleep(Duration::from_millis(20));
            fastrace::flush();
            let got = rep1.count(0x5E02) + rep2.count(0x5E02);
            extra = json!({"root_created_during_the_replacement_was_recording": recording, "its_records_delivered": got, "to_the_old_reporter": rep1.count(0x5E02)});
            if !recording || got != 3 {
                panic!("a trace started while a second set_reporter() call was waiting for the collector (busy inside report()): recording = {}, {} of 3 records delivered", recording, got);
            }
        }
        // C06 / C17: a LocalCollector started before any reporter exists records like any other
        "early-local-collector" => {
            let lc = LocalCollector::start();
            c();
            {
                let _a = LocalSpan::enter_with_local_parent("early").with_property(|| ("a", "1"));
                LocalSpan::add_property(|| ("b", "2"));
                LocalSpan::add_properties(|| [("c", "3"), ("d", "4")]);
                LocalSpan::add_event(Event::new("ev").with_property(|| ("ek", "ev")));
                {
                    let _n = LocalSpan::enter_with_local_parent("early-nested").with_properties(|| [("n", "1")]);
                    LocalSpan::add_property(|| ("m", "2"));
                }
                c();
            }
            let spans = lc.collect();
            let shape = |recs: &[SpanRecord]| -> Vec<String> {
                let mut v: Vec<String> = recs
                    .iter()
                    .map(|r| {
                        format!(
                            "{} props={:?} events={:?}",
                            r.name,
                            r.properties.iter().map(|(k, v)| format!("{}={}", k, v)).collect::<Vec<_>>(),
                            r.events.iter().map(|e| format!("{}{:?}", e.name, e.properties.iter().map(|(k, v)| format!("{}={}", k, v)).collect::<Vec<_>>())).collect::<Vec<_>>()
                        )
                    })
                    .collect();
                v.sort();
                v
            };
            let want = vec![
                "early props=[\"a=1\", \"b=2\", \"c=3\", \"d=4\"] events=[\"ev[\\\"ek=ev\\\"]\"]".to_string(),
                "early-nested props=[\"n=1\", \"m=2\"] events=[]".to_string(),
            ];
            let direct = shape(&spans.to_span_records(SpanContext::new(TraceId(0xEA00), SpanId(9))));
            if direct != want {
                panic!("to_span_records() of a set collected before the first set_reporter: {:?}, expected {:?}", direct, want);
            }
            let rep = Rep::default();
            fastrace::set_reporter(rep.clone(), Config::default());
            for k in 0..2u128 {
                let root = Span::root("late-root", SpanContext::new(TraceId(0xEA01 + k), SpanId(1)));
                root.push_child_spans(spans.clone());
                c();
            }
            fastrace::flush();
            for k in 0..2u128 {
                let recs: Vec<SpanRecord> = rep.0.lock().unwrap().iter().filter(|r| r.trace_id.0 == 0xEA01 + k && r.name != "late-root").cloned().collect();
                let got = shape(&recs);
                if got != want {
                    panic!("copy {} of a set collected before the first set_reporter and pushed afterwards: {:?}, expected {:?}", k, got, want);
                }
            }
            extra = json!({"records_compared": 6});
        }
        // C01 in the shipped feature set: every finished span exactly once, threads exiting at once
        "threads-exactly-once" => {
            let rep = Rep::default();
            fastrace::set_reporter(rep.clone(), Config::default().report_interval(Duration::from_millis(1)));
            let mut hs = vec![];
            for t in 0..8u128 {
                hs.push(std::thread::spawn(move || {
                    for k in 0..40u128 {
                        let root = Span::root("r", SpanContext::new(TraceId(0xA000 + t * 100 + k), SpanId(1)));
                        let child = Span::enter_with_parent("c-elsewhere", &root);
                        // the child's first and only tracing call on a thread that exits at once
                        std::thread::spawn(move || drop(child));
                        small_trace(0xB000 + t * 100 + k, "s");
                    }
                }));
            }
            for h in hs {
                h.join().unwrap();
            }
            let want = 8 * 40 * (2 + 3);
            let ok = wait_until(Duration::from_secs(20), || rep.0.lock().unwrap().len() >= want);
            fastrace::flush();
            let recs = rep.0.lock().unwrap();
            let mut seen = std::collections::HashMap::new();
            for r in recs.iter() {
                *seen.entry((r.trace_id.0, r.name.to_string())).or_insert(0usize) += 1;
            }
            let dups = seen.values().filter(|n| **n > 1).count();
            extra = json!({"records": recs.len(), "expected": want, "delivered_without_flush": ok, "duplicates": dups});
            if recs.len() != want || dups != 0 {
                panic!("{} records for {} finished spans, {} delivered more than once", recs.len(), want, dups);
            }
            if !ok {
                panic!("not every finished span was delivered by the background collector within 20 s without flush()");
            }
        }
        other => panic!("unknown scenario {}", other),
    }));
    let msg = |e: &Box<dyn std::any::Any + Send>| -> String {
        if let Some(s) = e.downcast_ref::<&str>() {
            s.to_string()
        } else if let Some(s) = e.downcast_ref::<String>() {
            s.clone()
        } else {
            "<payload>".to_string()
        }
    };
    let doc = match r {
        Ok(()) => json!({"scenario": scenario, "ok": true, "calls": CALLS.load(Ordering::Relaxed), "extra": extra, "wall_s": t0.elapsed().as_secs_f64(), "features": "enable (no verif)"}),
        Err(e) => json!({"scenario": scenario, "ok": false, "panic": msg(&e), "calls": CALLS.load(Ordering::Relaxed), "wall_s": t0.elapsed().as_secs_f64()}),
    };
    std::fs::write(&out, serde_json::to_string_pretty(&doc).unwrap()).unwrap();
    std::process::exit(0);
}
