//! Tiny multi-threaded span programs for Miri (undefined behaviour, aliasing of the
//! `UnsafeCell<Sender>` thread-local, data races on the SPSC ring under Miri's weak-memory
//! emulation, thread-locals used during destruction). The oracle is Miri itself plus an
//! exactly-once check of what the reporter received.

use std::sync::atomic::{AtomicUsize, Ordering};
use std::sync::{Arc, Mutex};
use std::time::Duration;

use fastrace::collector::{Config, Reporter, SpanContext, SpanId, SpanRecord, TraceId};
use fastrace::local::LocalCollector;
use fastrace::prelude::*;

#[derive(Clone, Default)]
struct Rep(Arc<Mutex<Vec<String>>>);
impl Reporter for Rep {
    fn report(&mut self, spans: Vec<SpanRecord>) {
        self.0.lock().unwrap().extend(spans.into_iter().map(|r| r.name.to_string()));
    }
}

struct Dtor;
impl Drop for Dtor {
    fn drop(&mut self) {
        // tracing while the thread's locals are being destroyed
        let r = Span::root("dtor-root", SpanContext::new(TraceId(99), SpanId(1)));
        let _g = r.set_local_parent();
        let _l = LocalSpan::enter_with_local_parent("dtor-local");
        LocalSpan::add_event(Event::new("e"));
    }
}

thread_local! {
    static USER: std::cell::RefCell<Option<Dtor>> = const { std::cell::RefCell::new(None) };
}

static DONE: AtomicUsize = AtomicUsize::new(0);

fn main() {
    let seed: u64 = std::env::args().nth(1).and_then(|s| s.parse().ok()).unwrap_or(1);
    let cancelable = seed % 2 == 1;
    let rep = Rep::default();
    // the background thread runs one cycle and then sleeps for the rest of the (short) run
    fastrace::set_reporter(rep.clone(), Config::default().cancelable(cancelable).report_interval(Duration::from_secs(3600)));
    let mut expected: Vec<String> = vec![];
    let nthreads = 2 + (seed % 2) as usize;
    // a collector running concurrently with the producers
    let stop = Arc::new(AtomicUsize::new(0));
    let cstop = stop.clone();
    let collector = std::thread::spawn(move || {
        while cstop.load(Ordering::Acquire) == 0 {
            fastrace::verif::run_collector_cycle();
            std::thread::yield_now();
        }
    });
    let root = Arc::new(Mutex::new(Some(Span::root("root", SpanContext::new(TraceId(seed as u128 + 1), SpanId(7))).with_property(|| ("k", "v")))));
    let mut hs = vec![];
    for t in 0..nthreads {
        let root = root.clone();
        hs.push(std::thread::spawn(move || {
            if t == 0 {
                USER.with(|u| *u.borrow_mut() = Some(Dtor));
            }
            // first tracing call of the thread: a child of a span owned elsewhere
            let c = {
                let g = root.lock().unwrap();
                Span::enter_with_parent(format!("c{}", t), g.as_ref().unwrap())
            };
            {
                let _g = c.set_local_parent();
                let _l = LocalSpan::enter_with_local_parent(format!("l{}", t)).with_property(|| ("a", "b"));
                LocalSpan::add_property(|| ("p", "q"));
                let lc = LocalCollector::start();
                let _x = LocalSpan::enter_with_local_parent(format!("x{}", t));
                drop(_x);
                let set = lc.collect();
                c.push_child_spans(set);
                let _ = SpanContext::current_local_parent();
            }
            c.add_event(Event::new("ev"));
            drop(c);
            DONE.fetch_add(1, Ordering::SeqCst);
            // the thread exits right after its last push
        }));
        expected.push(format!("c{}", t));
        expected.push(format!("l{}", t));
        expected.push(format!("x{}", t));
    }
    for h in hs {
        h.join().unwrap();
    }
    let r = root.lock().unwrap().take();
    drop(r);
    expected.push("root".to_string());
    stop.store(1, Ordering::Release);
    collector.join().unwrap();
    fastrace::verif::run_collector_cycle();
    fastrace::verif::run_collector_cycle();
    let got = rep.0.lock().unwrap().clone();
    for e in &expected {
        let n = got.iter().filter(|g| *g == e).count();
        if n != 1 {
            eprintln!("MIRI-ORACLE: {:?} delivered {} times (cancelable={}); all: {:?}", e, n, cancelable, got);
            std::process::exit(3);
        }
    }
    let st = fastrace::verif::collector_stats();
    println!("ok seed={} cancelable={} delivered={} stats={:?}", seed, cancelable, got.len(), st);
}
