#!/bin/sh
# Build the verification machinery from files on disk only (offline).
set -e
cd "$(dirname "$0")"
export CARGO_NET_OFFLINE=true
python3 tools/mkvendor.py /verif/vendor
(cd harness && cargo build --bins -q)
(cd harness && cargo build --release -q -p hx --bin progsim)
(cd harness-inert && cargo build -q)
echo "setup done"
