#!/bin/sh
# Build the verification machinery from files on disk only (offline).
set -e
cd "$(dirname "$0")"
export CARGO_NET_OFFLINE=true
python3 tools/mkvendor.py /verif/vendor
(cd harness && cargo build --bins -q)
(cd harness && cargo build --release -q -p hx --bin progsim --bin hostile)
(cd harness-inert && cargo build -q)
(cd harness-plain && cargo build -q)
# ThreadSanitizer build (instrumented std); a failure here only makes that supplement inconclusive
python3 tools/mkvendor_std.py || true
(cd harness && RUSTFLAGS="-Zsanitizer=thread" cargo +nightly build -q -Zbuild-std -p hx --bin stress --bin hostile --bin progsim \
   --target x86_64-unknown-linux-gnu --target-dir /verif/harness/target-tsan \
   --config 'source.vendored.directory="/verif/vendor-std"') || echo "setup: ThreadSanitizer build not available"
echo "setup done"
