//! C16, disabled build: fastrace is linked WITHOUT the `enable` feature. Random sequences over the
//! whole public API must be inert: no reporter call, no thread, no context, no closure invoked.

use std::future::Future;
use std::pin::Pin;
use std::sync::atomic::{AtomicU64, Ordering};
use std::sync::Arc;
use std::task::{Context, Poll};
use std::time::{Duration, Instant};

use fastrace::collector::{Config, Reporter, SpanContext, SpanId, SpanRecord, TraceId};
use fastrace::future::FutureExt as _;
use fastrace::local::{LocalCollector, LocalParentGuard, LocalSpans};
use fastrace::prelude::*;
use futures::sink::Sink;
use futures::stream::Stream;
use serde_json::json;

static CLOSURES: AtomicU64 = AtomicU64::new(0);
static REPORTS: AtomicU64 = AtomicU64::new(0);
static RECORDS: AtomicU64 = AtomicU64::new(0);

struct Rep;
impl Reporter for Rep {
    fn report(&mut self, spans: Vec<SpanRecord>) {
        REPORTS.fetch_add(1, Ordering::SeqCst);
        RECORDS.fetch_add(spans.len() as u64, Ordering::SeqCst);
    }
}

fn cl() -> (&'static str, &'static str) {
    CLOSURES.fetch_add(1, Ordering::SeqCst);
    ("k", "v")
}
fn cls() -> Vec<(String, String)> {
    CLOSURES.fetch_add(1, Ordering::SeqCst);
    vec![("a".to_string(), "b".to_string())]
}

/// The serial number std gives to the next thread it creates: `ThreadId`s are handed out from a
/// process-wide counter, so the difference between two probes, minus the threads this harness
/// started itself, is the number of threads somebody else started in between -- including threads
/// that were joined again before anyone could count the live ones.
fn thread_serial() -> u64 {
    std::thread::spawn(|| {
        let s = format!("{:?}", std::thread::current().id());
        s.trim_start_matches("ThreadId(").trim_end_matches(')').parse::<u64>().unwrap_or(0)
    })
    .join()
    .unwrap_or(0)
}

fn threads() -> usize {
    std::fs::read_dir("/proc/self/task").map(|d| d.count()).unwrap_or(0)
}

struct Rng(u64);
impl Rng {
    fn next(&mut self) -> u64 {
        self.0 ^= self.0 << 13;
        self.0 ^= self.0 >> 7;
        self.0 ^= self.0 << 17;
        self.0
    }
    fn below(&mut self, n: usize) -> usize {
        (self.next() % n as u64) as usize
    }
}

#[fastrace::trace]
fn traced_sync(x: u32) -> u32 {
    x * 2 + 1
}

#[fastrace::trace(name = "named", properties = { "x": "{x}" })]
fn traced_props(x: u32) -> u32 {
    x + 7
}

/// An argument whose formatting is observable: property format strings may only be evaluated for
/// spans that record, so never in this build.
struct Obs(u32);
impl std::fmt::Display for Obs {
    fn fmt(&self, f: &mut std::fmt::Formatter<'_>) -> std::fmt::Result {
        CLOSURES.fetch_add(1, Ordering::SeqCst);
        write!(f, "obs{}", self.0)
    }
}
impl std::fmt::Debug for Obs {
    fn fmt(&self, f: &mut std::fmt::Formatter<'_>) -> std::fmt::Result {
        CLOSURES.fetch_add(1, Ordering::SeqCst);
        write!(f, "Obs({})", self.0)
    }
}

#[fastrace::trace(properties = { "o": "{o}", "od": "{o:?} and {x}" })]
fn traced_obs(o: Obs, x: u32) -> u32 {
    x + o.0
}

#[fastrace::trace(properties = { "o": "<{o}>" })]
async fn traced_obs_async(o: Obs) -> u32 {
    o.0 + 1
}

#[fastrace::trace]
async fn traced_async(x: u32) -> u32 {
    x + 3
}

#[fastrace::trace(enter_on_poll = true)]
async fn traced_poll(x: u32) -> u32 {
    x + 4
}

struct Inner(u32);
impl Future for Inner {
    type Output = u32;
    fn poll(mut self: Pin<&mut Self>, _cx: &mut Context<'_>) -> Poll<u32> {
        if self.0 == 0 {
            Poll::Ready(9)
        } else {
            self.0 -= 1;
            Poll::Pending
        }
    }
}
impl Stream for Inner {
    type Item = u32;
    fn poll_next(mut self: Pin<&mut Self>, _cx: &mut Context<'_>) -> Poll<Option<u32>> {
        if self.0 == 0 {
            Poll::Ready(None)
        } else {
            self.0 -= 1;
            Poll::Ready(Some(1))
        }
    }
}
impl Sink<u32> for Inner {
    type Error = ();
    fn poll_ready(self: Pin<&mut Self>, _cx: &mut Context<'_>) -> Poll<Result<(), ()>> {
        Poll::Ready(Ok(()))
    }
    fn start_send(self: Pin<&mut Self>, _item: u32) -> Result<(), ()> {
        Ok(())
    }
    fn poll_flush(self: Pin<&mut Self>, _cx: &mut Context<'_>) -> Poll<Result<(), ()>> {
        Poll::Ready(Ok(()))
    }
    fn poll_close(self: Pin<&mut Self>, _cx: &mut Context<'_>) -> Poll<Result<(), ()>> {
        Poll::Ready(Ok(()))
    }
}

fn drive<F: Future>(f: F) -> F::Output {
    let waker = futures::task::noop_waker();
    let mut cx = Context::from_waker(&waker);
    let mut f = Box::pin(f);
    loop {
        if let Poll::Ready(v) = f.as_mut().poll(&mut cx) {
            return v;
        }
    }
}

fn main() {
    let v: Vec<String> = std::env::args().collect();
    let mut seed = 1u64;
    let mut out = "/dev/stdout".to_string();
    let mut steps = 200_000usize;
    let mut i = 1;
    while i + 1 < v.len() {
        match v[i].as_str() {
            "--seed" => seed = v[i + 1].parse().unwrap_or(1),
            "--out" => out = v[i + 1].clone(),
            "--steps" => steps = v[i + 1].parse().unwrap_or(200_000),
            _ => {}
        }
        i += 2;
    }
    let t0 = Instant::now();
    let mut viol: Vec<serde_json::Value> = vec![];
    let mut bad = |sig: &str, d: String| {
        if viol.len() < 20 {
            viol.push(json!({"category": "Inert", "signature": sig, "detail": d}));
        }
    };
    let th0 = threads();
    let _ = std::thread::current().id();
    let serial0 = thread_serial();
    let mut own_threads = 0u64;
    fastrace::set_reporter(Rep, Config::default().report_interval(Duration::from_millis(1)));
    std::thread::sleep(Duration::from_millis(20));
    let th1 = threads();
    if th1 != th0 {
        bad("thread-started", format!("set_reporter changed the number of threads from {} to {}", th0, th1));
    }
    let mut rng = Rng(seed.wrapping_mul(0x9E37_79B9_7F4A_7C15) | 1);
    let mut spans: Vec<Span> = vec![];
    let mut guards: Vec<LocalParentGuard> = vec![];
    let mut locals: Vec<LocalSpan> = vec![];
    // guards and local spans are released in reverse order of creation: one stack of markers
    let mut order: Vec<u8> = vec![];
    let mut sets: Vec<LocalSpans> = vec![];
    let mut kinds = std::collections::BTreeMap::<&'static str, usize>::new();
    let mut somes = 0usize;
    let waker = futures::task::noop_waker();
    for step in 0..steps {
        let a = rng.below(30);
        let name: &'static str = match a {
            0 => {
                spans.push(Span::root("r", SpanContext::new(TraceId(rng.next() as u128), SpanId(rng.next())).sampled(rng.below(4) != 0)).with_property(cl));
                "root"
            }
            1 => {
                spans.push(Span::root("r", SpanContext::random()).with_properties(cls));
                "root_random"
            }
            2 if !spans.is_empty() => {
                let p = rng.below(spans.len());
                let c = Span::enter_with_parent("c", &spans[p]).with_property(cl);
                spans.push(c);
                "child"
            }
            3 if !spans.is_empty() => {
                let n = 1 + rng.below(3.min(spans.len()));
                let c = Span::enter_with_parents("m", spans.iter().take(n)).with_properties(cls);
                spans.push(c);
                "child_multi"
            }
            4 => {
                spans.push(Span::enter_with_local_parent("cl").with_property(cl));
                "child_local"
            }
            5 => {
                spans.push(Span::noop());
                "noop"
            }
            6 if !spans.is_empty() && order.len() < 64 => {
                let p = rng.below(spans.len());
                guards.push(spans[p].set_local_parent());
                order.push(0);
                "set_local_parent"
            }
            7 if order.len() < 64 => {
                locals.push(LocalSpan::enter_with_local_parent("l").with_property(cl).with_properties(cls));
                order.push(1);
                "local_enter"
            }
            8 | 9 if !order.is_empty() => {
                match order.pop().unwrap() {
                    0 => drop(guards.pop()),
                    _ => drop(locals.pop()),
                }
                "pop"
            }
            10 => {
                LocalSpan::add_property(cl);
                LocalSpan::add_properties(cls);
                "local_add_property"
            }
            11 => {
                LocalSpan::add_event(Event::new("e").with_property(cl).with_properties(cls));
                #[allow(deprecated)]
                Event::add_to_local_parent("e-old", || {
                    CLOSURES.fetch_add(1, Ordering::SeqCst);
                    [(std::borrow::Cow::from("k"), std::borrow::Cow::from("v"))]
                });
                "local_add_event"
            }
            12 if !spans.is_empty() => {
                let p = rng.below(spans.len());
                spans[p].add_property(cl);
                spans[p].add_properties(cls);
                "add_property"
            }
            13 if !spans.is_empty() => {
                let p = rng.below(spans.len());
                spans[p].add_event(Event::new("e").with_property(cl));
                #[allow(deprecated)]
                Event::add_to_parent("e-old", &spans[p], || {
                    CLOSURES.fetch_add(1, Ordering::SeqCst);
                    [(std::borrow::Cow::from("k"), std::borrow::Cow::from("v"))]
                });
                "add_event"
            }
            14 if !spans.is_empty() => {
                let p = rng.below(spans.len());
                if SpanContext::from_span(&spans[p]).is_some() {
                    somes += 1;
                    bad("context-returned", format!("step {}: from_span returned Some in a disabled build", step));
                }
                if spans[p].elapsed().is_some() {
                    somes += 1;
                    bad("context-returned", format!("step {}: elapsed returned Some in a disabled build", step));
                }
                "from_span_elapsed"
            }
            15 => {
                if SpanContext::current_local_parent().is_some() {
                    somes += 1;
                    bad("context-returned", format!("step {}: current_local_parent returned Some in a disabled build", step));
                }
                "current_local_parent"
            }
            16 if !spans.is_empty() => {
                let p = rng.below(spans.len());
                spans[p].cancel();
                "cancel"
            }
            17 | 18 if !spans.is_empty() => {
                let p = rng.below(spans.len());
                drop(spans.swap_remove(p));
                "finish"
            }
            19 => {
                let c = LocalCollector::start();
                let _l = LocalSpan::enter_with_local_parent("in-collector").with_property(cl);
                LocalSpan::add_event(Event::new("x"));
                drop(_l);
                let s = c.collect();
                if !s.to_span_records(SpanContext::new(TraceId(1), SpanId(2))).is_empty() {
                    bad("records-returned", format!("step {}: to_span_records is not empty in a disabled build", step));
                }
                sets.push(s);
                if sets.len() > 8 {
                    sets.remove(0);
                }
                "local_collector"
            }
            20 if !spans.is_empty() && !sets.is_empty() => {
                let p = rng.below(spans.len());
                spans[p].push_child_spans(sets[rng.below(sets.len())].clone());
                "push_child_spans"
            }
            21 => {
                if traced_obs(Obs(2), 5) != 7 {
                    bad("trace-macro-changed-result", "a #[trace] function with properties returned a different value".to_string());
                }
                {
                    let waker = futures::task::noop_waker();
                    let mut cx = Context::from_waker(&waker);
                    let mut f = Box::pin(traced_obs_async(Obs(4)));
                    if let Poll::Ready(v) = f.as_mut().poll(&mut cx) {
                        if v != 5 {
                            bad("trace-macro-changed-result", "an async #[trace] function with properties returned a different value".to_string());
                        }
                    }
                }
                if traced_sync(3) != 7 || traced_props(1) != 8 {
                    bad("trace-macro-changed-result", "a #[trace] function returned a different value".to_string());
                }
                "trace_sync"
            }
            22 => {
                if drive(traced_async(1)) != 4 || drive(traced_poll(1)) != 5 {
                    bad("trace-macro-changed-result", "an async #[trace] function returned a different value".to_string());
                }
                "trace_async"
            }
            23 => {
                let s = Span::root("f", SpanContext::random());
                let r = drive(Inner(rng.below(3) as u32).enter_on_poll("p").in_span(s));
                if r != 9 {
                    bad("adapter-changed-result", "in_span changed the future's output".to_string());
                }
                "future_adapters"
            }
            24 => {
                let mut cx = Context::from_waker(&waker);
                let mut st = Box::pin(fastrace_futures::StreamExt::in_span(Inner(2), Span::root("s", SpanContext::random())));
                let mut n = 0;
                while let Poll::Ready(Some(_)) = st.as_mut().poll_next(&mut cx) {
                    n += 1;
                }
                if n != 2 {
                    bad("adapter-changed-result", "stream in_span changed the items".to_string());
                }
                let mut sk = Box::pin(fastrace_futures::SinkExt::<u32>::in_span(Inner(0), Span::root("k", SpanContext::random())));
                let _ = sk.as_mut().poll_ready(&mut cx);
                let _ = sk.as_mut().start_send(1);
                let _ = sk.as_mut().poll_flush(&mut cx);
                let _ = sk.as_mut().poll_close(&mut cx);
                "stream_sink_adapters"
            }
            25 if step % 97 == 0 => {
                let a = thread_serial();
                fastrace::flush();
                let b = thread_serial();
                own_threads += 2;
                if b != a + 1 {
                    bad("thread-started", format!("flush() started {} thread(s) (thread serial went from {} to {})", b.wrapping_sub(a + 1), a, b));
                }
                "flush"
            }
            26 if step % 211 == 0 => {
                own_threads += 1;
                let h = std::thread::spawn(|| {
                    let r = Span::root("t", SpanContext::random()).with_property(cl);
                    let _g = r.set_local_parent();
                    let _l = LocalSpan::enter_with_local_parent("tl").with_property(cl);
                    SpanContext::current_local_parent().is_some()
                });
                if h.join().unwrap_or(false) {
                    bad("context-returned", "current_local_parent returned Some on another thread".to_string());
                }
                "other_thread"
            }
            27 => {
                // the text codecs are plain functions: they work the same with tracing compiled out
                let tid = ((rng.next() as u128) << 64 | rng.next() as u128) >> (rng.below(128) as u32);
                let c = SpanContext::new(TraceId(tid), SpanId(rng.next() >> rng.below(64))).sampled(rng.below(2) == 0);
                let enc = c.encode_w3c_traceparent();
                match SpanContext::decode_w3c_traceparent(&enc) {
                    Some(d) if d.trace_id == c.trace_id && d.span_id == c.span_id && d.sampled == c.sampled => {}
                    other => bad("codec", format!("disabled build: decode(encode({:?})) = {:?} via {:?}", c, other, enc)),
                }
                if enc.len() != 55 || !enc.starts_with("00-") {
                    bad("codec", format!("disabled build: encode gives {:?}", enc));
                }
                if SpanContext::decode_w3c_traceparent(&format!("{}-0", enc)).is_some() || SpanContext::decode_w3c_traceparent("01-0-0-00").is_some() || SpanContext::decode_w3c_traceparent("00-xyz-1-01").is_some() {
                    bad("codec", "disabled build: malformed traceparent text was accepted".to_string());
                }
                use std::str::FromStr;
                if TraceId::from_str(&c.trace_id.to_string()).ok() != Some(c.trace_id) || SpanId::from_str(&c.span_id.to_string()).ok() != Some(c.span_id) {
                    bad("codec", format!("disabled build: Display/FromStr of {:?} do not round trip", c));
                }
                "codec"
            }
            _ => "skip",
        };
        *kinds.entry(name).or_insert(0) += 1;
        if spans.len() > 40 {
            spans.remove(0);
        }
    }
    while let Some(k) = order.pop() {
        match k {
            0 => drop(guards.pop()),
            _ => drop(locals.pop()),
        }
    }
    spans.clear();
    let before_flush = threads();
    fastrace::flush();
    std::thread::sleep(Duration::from_millis(20));
    let th2 = threads();
    if th2 != th0 {
        bad("thread-started", format!("number of threads went from {} to {} (before flush {})", th0, th2, before_flush));
    }
    let serial1 = thread_serial();
    let foreign_threads = serial1.wrapping_sub(serial0 + 1 + own_threads);
    if foreign_threads != 0 {
        bad("thread-started", format!("{} thread(s) were started by the library over the run (thread serial {} -> {}, {} started by the harness)", foreign_threads, serial0, serial1, own_threads + 1));
    }
    let c = CLOSURES.load(Ordering::SeqCst);
    if c != 0 {
        bad("closure-invoked", format!("{} property closures were invoked in a disabled build", c));
    }
    let r = REPORTS.load(Ordering::SeqCst);
    if r != 0 {
        bad("reporter-called", format!("the reporter was called {} times with {} records in a disabled build", r, RECORDS.load(Ordering::SeqCst)));
    }
    let _ = (Arc::new(0), somes);
    let distinct = kinds.iter().filter(|(k, v)| **k != "skip" && **v > 0).count();
    let doc = json!({
        "property": "C16",
        "engine": "inert",
        "seed": seed,
        "programs": 1,
        "executions": steps,
        "distinct_executions": distinct,
        "ops_by_kind": kinds,
        "closures_invoked": c,
        "report_calls": r,
        "threads_before_after": [th0, th2],
        "thread_serials": {"first": serial0, "last": serial1, "started_by_harness": own_threads + 1, "started_by_library": foreign_threads},
        "violations": viol,
        "inconclusive": [],
        "known_findings": {},
        "samples": [format!("seed {}: {} random API calls over a pool of spans/guards/local spans, feature `enable` off", seed, steps)],
        "wall_s": t0.elapsed().as_secs_f64(),
    });
    std::fs::write(&out, serde_json::to_string_pretty(&doc).unwrap()).unwrap();
}
